"""The sensitivity (expect='violation') and specificity (expect='silent') corpus."""

MUTANTS = []


def M(id, props, edits, rules=None, expect="violation"):
    if isinstance(props, str):
        props = [props]
    if isinstance(edits, tuple) and isinstance(edits[0], str):
        edits = [edits]
    MUTANTS.append({"id": id, "props": props, "edits": list(edits), "rules": rules, "expect": expect})


# ------------------------------------------------------------------ C01
M("c01-length7-0x7f", "C01", ("_abnf", "LENGTH_7 = 0x7E", "LENGTH_7 = 0x7F"), ["R-C01-1"])
M("c01-length7-0x7d", "C01", ("_abnf", "LENGTH_7 = 0x7E", "LENGTH_7 = 0x7D"), ["R-C01-1"])
M("c01-length16-le", "C01", ("_abnf", "elif length < ABNF.LENGTH_16:", "elif length <= ABNF.LENGTH_16:"), ["R-C01-1"])
M("c01-length16-1shl15", "C01", ("_abnf", "LENGTH_16 = 1 << 16", "LENGTH_16 = 1 << 15"), ["R-C01-1"])
M("c01-little-endian-H", "C01", ("_abnf", 'frame_header += struct.pack("!H", length)', 'frame_header += struct.pack("<H", length)'), ["R-C01-1"])
M("c01-little-endian-Q", "C01", ("_abnf", 'frame_header += struct.pack("!Q", length)', 'frame_header += struct.pack("<Q", length)'), ["R-C01-1"])
M("c01-length63-dropped", "C01", ("_abnf", "if length >= ABNF.LENGTH_63:", "if length > ABNF.LENGTH_63:"), ["R-C01-1"])
M("c01-mask-shift-6", "C01", ("_abnf", "frame_header += chr(self.mask_value << 7 | length).encode", "frame_header += chr(self.mask_value << 6 | length).encode"), ["R-C01-2", "R-C01-1"])
M("c01-rsv1-shift-5", "C01", ("_abnf", "| self.rsv1 << 6", "| self.rsv1 << 5"), ["R-C01-2"])
M("c01-fin-shift-6", "C01", ("_abnf", "self.fin << 7\n", "self.fin << 6\n"), ["R-C01-2"])
M("c01-create-frame-mask0", "C01", ("_abnf", "return ABNF(fin, 0, 0, 0, opcode, 1, data)", "return ABNF(fin, 0, 0, 0, opcode, 0, data)"), ["R-C01-3"])
M("c01-create-frame-rsv1", "C01", ("_abnf", "return ABNF(fin, 0, 0, 0, opcode, 1, data)", "return ABNF(fin, 1, 0, 0, opcode, 1, data)"), ["R-C01-3"])
M("c01-create-frame-fin-const", "C01", ("_abnf", "return ABNF(fin, 0, 0, 0, opcode, 1, data)", "return ABNF(1, 0, 0, 0, opcode, 1, data)"), ["R-C01-3"])
M("c01-text-latin1", "C01", ("_abnf", '            data = data.encode("utf-8")\n        # mask must be set', '            data = data.encode("latin-1")\n        # mask must be set'), ["R-C01-3"])
M("c01-pong-sends-ping", "C01", ("_core", "self.send(payload, ABNF.OPCODE_PONG)", "self.send(payload, ABNF.OPCODE_PING)"), ["R-C01-3"])
M("c01-const-key", "C01", ("_abnf", "self.get_mask_key = os.urandom", 'self.get_mask_key = bytes'), ["R-C01-4"])
M("c01-two-draws", "C01", ("_abnf", "        s = ABNF.mask(mask_key, self.data)\n", "        s = ABNF.mask(self.get_mask_key(4), self.data)\n"), ["R-C01-4"])
M("c01-key-len-3", "C01", ("_abnf", "mask_key = self.get_mask_key(4)", "mask_key = self.get_mask_key(3)"), ["R-C01-4"])
M("c01-ignore-custom-key", "C01", ("_core", "        if self.get_mask_key:\n            frame.get_mask_key = self.get_mask_key\n", "        if self.get_mask_key:\n            pass\n"), ["R-C01-4"])
M("c01-mask-div3", "C01", ("_abnf", "mask_value * (datalen // 4)", "mask_value * (datalen // 3)"), ["R-C01-5"])
M("c01-mixed-byteorder", "C01", ("_abnf", "int_data_value = int.from_bytes(data_value, native_byteorder)", 'int_data_value = int.from_bytes(data_value, "big")'), ["R-C01-5"])
M("c01-return-last-write", "C01", ("_core", "        return length\n\n    def send_binary", "        return l\n\n    def send_binary"), ["R-C01-6"])
M("c01-length-after-loop", "C01", ("_core", "        data = frame.format()\n        length = len(data)\n", "        data = frame.format()\n        length = 0\n"), ["R-C01-6"])
M("c01-direct-sock-send", "C01", ("_core", "        self.send(payload, ABNF.OPCODE_PING)\n", "        self.sock.send(ABNF.create_frame(payload, ABNF.OPCODE_PING).format())\n"), ["R-C01-7", "R-C01-3"])
M("c01-trace-mutates", "C01", ("_core", '            trace(f"++Sent decoded: {frame.__str__()}")\n', '            trace(f"++Sent decoded: {frame.__str__()}")\n            data = data[:-1]\n'), ["R-C01-8", "R-C01-6"])
# specificity
M("c01-spec-elif-to-if-return", "C01", ("_abnf", "        if length < ABNF.LENGTH_7:\n            frame_header += chr(self.mask_value << 7 | length).encode(\"latin-1\")\n        elif length < ABNF.LENGTH_16:",
                                         "        if length <= 125:\n            frame_header += chr(self.mask_value << 7 | length).encode(\"latin-1\")\n        elif length <= 0xFFFF:"), expect="silent")
M("c01-spec-mask-mul128", "C01", ("_abnf", "frame_header += chr(self.mask_value << 7 | 0x7E).encode", "frame_header += chr(self.mask_value * 128 | 126).encode"), expect="silent")
M("c01-spec-inline-opcode-const", "C01", ("_core", "        self.send(payload, ABNF.OPCODE_PONG)", "        self.send(payload, 0xA)"), expect="silent")

# ------------------------------------------------------------------ C05
M("c05-revert-fix-control-frames", "C05", ("_abnf", "        if self.opcode in (ABNF.OPCODE_CLOSE, ABNF.OPCODE_PING, ABNF.OPCODE_PONG):\n            # RFC 6455 5.5: control frames must not be fragmented or exceed 125 bytes\n            if not self.fin:",
                                           "        if self.opcode in (ABNF.OPCODE_PING,):\n            # RFC 6455 5.5: control frames must not be fragmented or exceed 125 bytes\n            if not self.fin:"), ["R-C05-2"])
M("c05-code-le-5000", "C05", ("_abnf", "(3000 <= code < 5000)", "(3000 <= code <= 5000)"), ["R-C05-3"])
M("c05-code-ge-2999", "C05", ("_abnf", "(3000 <= code < 5000)", "(2999 <= code < 5000)"), ["R-C05-3"], expect="silent")  # 2999 is in the free range
M("c05-code-lt-4999", "C05", ("_abnf", "(3000 <= code < 5000)", "(3000 <= code < 4999)"), ["R-C05-3"])
M("c05-status-1005-added", "C05", ("_abnf", "    STATUS_INVALID_PAYLOAD,\n    STATUS_POLICY_VIOLATION,", "    STATUS_INVALID_PAYLOAD,\n    STATUS_STATUS_NOT_AVAILABLE,\n    STATUS_POLICY_VIOLATION,"), ["R-C05-3"])
M("c05-status-1002-dropped", "C05", ("_abnf", "    STATUS_PROTOCOL_ERROR,\n    STATUS_UNSUPPORTED_DATA_TYPE,\n    STATUS_INVALID_PAYLOAD,", "    STATUS_UNSUPPORTED_DATA_TYPE,\n    STATUS_INVALID_PAYLOAD,"), ["R-C05-3"])
M("c05-close-len-gt-126", "C05", ("_abnf", "if len(self.data) >= 126:", "if len(self.data) > 126:"), ["R-C05-2"])
M("c05-close-one-byte-ok", "C05", ("_abnf", "if l == 1 or l >= 126:", "if l >= 126:"), ["R-C05-2", "R-C05-6"])
M("c05-rsv3-forgotten", "C05", ("_abnf", "if self.rsv1 or self.rsv2 or self.rsv3:", "if self.rsv1 or self.rsv2:"), ["R-C05-1"])
M("c05-opcode-3-allowed", "C05", ("_abnf", "        OPCODE_BINARY,\n        OPCODE_CLOSE,\n        OPCODE_PING,\n        OPCODE_PONG,\n    )", "        OPCODE_BINARY,\n        3,\n        OPCODE_CLOSE,\n        OPCODE_PING,\n        OPCODE_PONG,\n    )"), ["R-C05-1"])
M("c05-reason-check-gt-3", "C05", ("_abnf", "if l > 2 and not skip_utf8_validation", "if l > 3 and not skip_utf8_validation"), ["R-C05-4"])
M("c05-reason-check-dropped", "C05", ("_abnf", "if l > 2 and not skip_utf8_validation and not validate_utf8(self.data[2:]):", "if l > 2 and not skip_utf8_validation and not validate_utf8(self.data[2:]) and False:"), ["R-C05-4"])
M("c05-cont-idle-inverted", "C05", ("_abnf", "if not self.recving_frames and frame.opcode == ABNF.OPCODE_CONT:", "if self.recving_frames and frame.opcode == ABNF.OPCODE_CONT:"), ["R-C05-5"])
M("c05-new-message-inside-allowed", "C05", ("_abnf", "        if self.recving_frames and frame.opcode in (\n            ABNF.OPCODE_TEXT,\n            ABNF.OPCODE_BINARY,\n        ):", "        if self.recving_frames and frame.opcode in (\n            ABNF.OPCODE_TEXT,\n        ):"), ["R-C05-5"])
M("c05-validate-not-called", "C05", ("_abnf", "            frame.validate(self.skip_utf8_validation)\n", "            pass\n"), expect="inconclusive")
M("c05-wrong-exception-type", "C05", ("_abnf", '            raise WebSocketProtocolException("Invalid opcode %r", self.opcode)', '            raise ValueError("Invalid opcode %r", self.opcode)'), ["R-C05-6", "R-C05-1"])
M("c05-ping-126-recv-loop", "C05", ("_core", "                if len(frame.data) < 126:", "                if len(frame.data) < 127:"), expect="silent")  # validate() already refuses it
M("c05-spec-opcode-range-test", "C05", ("_abnf", "        if self.opcode not in ABNF.OPCODES:\n            raise WebSocketProtocolException", "        if not (0 <= self.opcode <= 2 or 8 <= self.opcode <= 10):\n            raise WebSocketProtocolException"), expect="silent")
M("c05-spec-code-via-unpack", "C05", ("_abnf", "            code = 256 * int(self.data[0]) + int(self.data[1])", '            code = struct.unpack("!H", self.data[0:2])[0]'), expect="silent")
M("c05-spec-code-shift", "C05", ("_abnf", "            code = 256 * int(self.data[0]) + int(self.data[1])", "            code = self.data[0] << 8 | self.data[1]"), expect="silent")

# ------------------------------------------------------------------ C06
M("c06-revert-fix-return-true", "C06", ("_utils", "        return state == _UTF8_ACCEPT\n", "        return True\n"), ["R-C06-1", "R-C06-2"])
M("c06-table-cell-surrogates", "C06", ("_utils", "_UTF8_REJECT = 12", "_UTF8_REJECT = 12\n    _PATCH = None"), expect="silent")
M("c06-start-state-24", "C06", ("_utils", "        state = _UTF8_ACCEPT\n        codep = 0", "        state = 24\n        codep = 0"), ["R-C06-1"])
M("c06-no-early-reject", "C06", ("_utils", "            if state == _UTF8_REJECT:\n                return False\n", "            if state == _UTF8_REJECT:\n                pass\n"), expect="silent")  # reject state is a trap: language unchanged
M("c06-validate-fragment", "C06", ("_abnf", "        if self.cont_data:\n            self.cont_data[1] += frame.data", "        if frame.opcode != ABNF.OPCODE_BINARY and not self.skip_utf8_validation and not validate_utf8(frame.data):\n            raise WebSocketPayloadException('x')\n        if self.cont_data:\n            self.cont_data[1] += frame.data"), ["R-C06-3"])
M("c06-skip-flag-ignored", "C06", ("_abnf", "            and not self.skip_utf8_validation\n            and not validate_utf8(frame.data)", "            and not validate_utf8(frame.data)"), ["R-C06-4"])
M("c06-validation-dropped", "C06", ("_abnf", "            and not validate_utf8(frame.data)\n        ):", "            and not validate_utf8(frame.data)\n            and False\n        ):"), ["R-C06-5", "R-C06-3"])
M("c06-validate-last-fragment-only", "C06", ("_abnf", "        frame.data = data[1]\n        if (", "        last = frame.data\n        frame.data = data[1]\n        if (", ), expect="silent")
M("c06-validate-wrong-value", "C06", [("_abnf", "        frame.data = data[1]\n        if (", "        last = frame.data\n        frame.data = data[1]\n        if ("), ("_abnf", "            and not validate_utf8(frame.data)\n        ):", "            and not validate_utf8(last)\n        ):")], ["R-C06-3"])
M("c06-wrong-exception", "C06", ("_abnf", '            raise WebSocketPayloadException(f"cannot decode: {repr(frame.data)}")', '            raise ValueError(f"cannot decode: {repr(frame.data)}")'), ["R-C06-5"])

# ------------------------------------------------------------------ C02
M("c02-fin-shift-6", "C02", ("_abnf", "fin = b1 >> 7 & 1", "fin = b1 >> 6 & 1"), ["R-C02-1"])
M("c02-opcode-mask-7", "C02", ("_abnf", "opcode = b1 & 0xF", "opcode = b1 & 0x7"), ["R-C02-1"])
M("c02-hasmask-from-b1", "C02", ("_abnf", "has_mask = b2 >> 7 & 1", "has_mask = b1 >> 7 & 1"), ["R-C02-1"])
M("c02-lenbits-0x3f", "C02", ("_abnf", "length_bits = b2 & 0x7F\n\n", "length_bits = b2 & 0x3F\n\n"), ["R-C02-1", "R-C02-2", "R-C02-6"])
M("c02-7e-7f-swapped", "C02", [("_abnf", "        if length_bits == 0x7E:\n            v = self.recv_strict(2)", "        if length_bits == 0x7F:\n            v = self.recv_strict(2)"),
                                ("_abnf", "        elif length_bits == 0x7F:\n            v = self.recv_strict(8)", "        elif length_bits == 0x7E:\n            v = self.recv_strict(8)")], ["R-C02-2"])
M("c02-little-endian-H", "C02", ("_abnf", 'self.length = struct.unpack("!H", v)[0]', 'self.length = struct.unpack("<H", v)[0]'), ["R-C02-2"])
M("c02-read4-for-Q", "C02", ("_abnf", "            v = self.recv_strict(8)\n", "            v = self.recv_strict(4)\n"), ["R-C02-2"])
M("c02-mask-index-4", "C02", ("_abnf", "_HEADER_MASK_INDEX = 5", "_HEADER_MASK_INDEX = 4"), ["R-C02-2", "R-C02-6"])
M("c02-length-index-5", "C02", ("_abnf", "_HEADER_LENGTH_INDEX = 6", "_HEADER_LENGTH_INDEX = 5"), ["R-C02-2", "R-C02-6"])
M("c02-header-order", "C02", ("_abnf", "self.header = (fin, rsv1, rsv2, rsv3, opcode, has_mask, length_bits)", "self.header = (rsv1, fin, rsv2, rsv3, opcode, has_mask, length_bits)"), ["R-C02-1"])
M("c02-abnf-arg-order", "C02", ("_abnf", "frame = ABNF(fin, rsv1, rsv2, rsv3, opcode, has_mask, payload)", "frame = ABNF(fin, rsv2, rsv1, rsv3, opcode, has_mask, payload)"), ["R-C02-1"])
M("c02-remainder-off-by-one", "C02", ("_abnf", "self.recv_buffer = [unified[bufsize:]]", "self.recv_buffer = [unified[bufsize + 1:]]"), ["R-C02-5"])
M("c02-result-off-by-one", "C02", ("_abnf", "return unified[:bufsize]", "return unified[:bufsize + 1]"), ["R-C02-5"])
M("c02-request-uncapped", "C02", ("_abnf", "bytes_ = self.recv(min(16384, shortage))", "bytes_ = self.recv(16384)"), ["R-C02-5"])
M("c02-unconditional-unmask", "C02", ("_abnf", "            if has_mask:\n                payload = ABNF.mask(mask_value, payload)", "            if True:\n                payload = ABNF.mask(mask_value, payload)"), ["R-C02-2"])
M("c02-never-unmask", "C02", ("_abnf", "            if has_mask:\n                payload = ABNF.mask(mask_value, payload)", "            if False:\n                payload = ABNF.mask(mask_value, payload)"), ["R-C02-2"])
M("c02-mask-args-swapped", "C02", ("_abnf", "payload = ABNF.mask(mask_value, payload)", "payload = ABNF.mask(payload, mask_value)"), ["R-C02-2"])
M("c02-payload-len-plus-1", "C02", ("_abnf", "payload = self.recv_strict(length)", "payload = self.recv_strict(length + 1)"), ["R-C02-2"])
M("c02-spec-shift-then-mask", "C02", ("_abnf", "rsv1 = b1 >> 6 & 1", "rsv1 = (b1 & 0x40) >> 6"), expect="silent")
M("c02-spec-recv-cap-8192", "C02", ("_abnf", "bytes_ = self.recv(min(16384, shortage))", "bytes_ = self.recv(min(8192, shortage))"), expect="silent")

# ------------------------------------------------------------------ C07
M("c07-pong-empty", "C07", ("_core", "                    self.pong(frame.data)", '                    self.pong(b"")'), ["R-C07-1"])
M("c07-pong-only-if-not-reported", "C07", ("_core", "                if len(frame.data) < 126:\n                    self.pong(frame.data)", "                if len(frame.data) < 126:\n                    if not control_frame:\n                        self.pong(frame.data)"), ["R-C07-1", "R-C07-2"])
M("c07-pong-after-return", "C07", ("_core", "                if len(frame.data) < 126:\n                    self.pong(frame.data)\n                else:\n                    raise WebSocketProtocolException(\"Ping message is too long\")\n                if control_frame:\n                    return frame.opcode, frame",
                                   "                if len(frame.data) >= 126:\n                    raise WebSocketProtocolException(\"Ping message is too long\")\n                if control_frame:\n                    return frame.opcode, frame\n                self.pong(frame.data)"), ["R-C07-1", "R-C07-2"])
M("c07-pong-on-pong", "C07", ("_core", "            elif frame.opcode == ABNF.OPCODE_PONG:\n                if control_frame:", "            elif frame.opcode == ABNF.OPCODE_PONG:\n                self.pong(frame.data)\n                if control_frame:"), ["R-C07-1"])
M("c07-double-pong", "C07", ("_core", "                    self.pong(frame.data)\n", "                    self.pong(frame.data)\n                    self.pong(frame.data)\n"), ["R-C07-1"])
M("c07-no-close-reply", "C07", ("_core", "                self.send_close()\n                return frame.opcode, frame", "                return frame.opcode, frame"), ["R-C07-1"])
M("c07-pong-as-ping", "C07", ("_core", "        self.send(payload, ABNF.OPCODE_PONG)", "        self.send(payload, ABNF.OPCODE_PING)"), ["R-C07-3"])
M("c07-pong-truncated", "C07", ("_core", "        self.send(payload, ABNF.OPCODE_PONG)", "        self.send(payload[:100], ABNF.OPCODE_PONG)"), ["R-C07-3"])
M("c07-spec-threshold-le-125", "C07", ("_core", "                if len(frame.data) < 126:", "                if len(frame.data) <= 125:"), expect="silent")
M("c07-spec-reorder-branches", "C07", ("_core", "            elif frame.opcode == ABNF.OPCODE_PONG:\n                if control_frame:\n                    return frame.opcode, frame", "            elif frame.opcode == ABNF.OPCODE_PONG and control_frame:\n                return frame.opcode, frame"), expect="silent")

# ------------------------------------------------------------------ C04
M("c04-prepend", "C04", ("_abnf", "            self.cont_data[1] += frame.data", "            self.cont_data[1] = frame.data + self.cont_data[1]"), ["R-C04-2"])
M("c04-buffer-not-reset", "C04", ("_abnf", "        data = self.cont_data\n        self.cont_data = None\n", "        data = self.cont_data\n"), ["R-C04-2", "R-C04-3"])
M("c04-add-on-ping", "C04", ("_core", "            elif frame.opcode == ABNF.OPCODE_PING:\n                if len(frame.data) < 126:", "            elif frame.opcode == ABNF.OPCODE_PING:\n                self.cont_frame.add(frame)\n                if len(frame.data) < 126:"), ["R-C04-1"])
M("c04-recving-not-cleared", "C04", ("_abnf", "        if frame.fin:\n            self.recving_frames = None", "        if frame.fin and frame.opcode != ABNF.OPCODE_CONT:\n            self.recving_frames = None"), ["R-C04-2", "R-C04-3"])
M("c04-is-fire-ignores-fin", "C04", ("_abnf", "        return frame.fin or self.fire_cont_frame", "        return self.fire_cont_frame"), ["R-C04-2"])
M("c04-is-fire-always", "C04", ("_abnf", "        return frame.fin or self.fire_cont_frame", "        return True"), ["R-C04-2"])
M("c04-opcode-overwritten", "C04", ("_abnf", "        if self.cont_data:\n            self.cont_data[1] += frame.data", "        if self.cont_data:\n            self.cont_data[0] = frame.opcode\n            self.cont_data[1] += frame.data"), ["R-C04-2"])
M("c04-extract-returns-frame-opcode", "C04", ("_abnf", "        return data[0], frame\n", "        return frame.opcode, frame\n"), ["R-C04-2"])
M("c04-drop-fragment", "C04", ("_abnf", "        if self.cont_data:\n            self.cont_data[1] += frame.data", "        if self.cont_data:\n            self.cont_data[1] = frame.data"), ["R-C04-2"])
M("c04-recv-latin1", "C04", ("_core", '                return data_received.decode("utf-8")', '                return data_received.decode("latin-1")'), ["R-C04-5"])
M("c04-recv-binary-decoded", "C04", ("_core", "            data_binary: bytes = data\n            return data_binary", "            data_binary: bytes = data\n            return data_binary.decode('utf-8')"), ["R-C04-5"])
M("c04-close-resets-buffer", "C04", ("_core", "                self.send_close()\n                return frame.opcode, frame", "                self.send_close()\n                self.cont_frame.cont_data = None\n                return frame.opcode, frame"), ["R-C04-1"])
M("c04-spec-add-rewritten", "C04", ("_abnf", "            self.cont_data[1] += frame.data", "            self.cont_data[1] = self.cont_data[1] + frame.data"), expect="silent")

# ------------------------------------------------------------------ C08
M("c08-revert-fix-reply-guard", "C08", ("_core", "                if self.connected:\n                    self.send_close()", "                if True:\n                    self.send_close()"), ["R-C08-3"], expect="silent")  # send_close itself refuses now: raises instead of a 2nd frame
M("c08-revert-fix-send-close-guard", "C08", ("_core", "        if not self.connected:\n            # RFC 6455 5.5.1: an endpoint sends at most one close frame\n            raise WebSocketConnectionClosedException(", "        if False:\n            # RFC 6455 5.5.1: an endpoint sends at most one close frame\n            raise WebSocketConnectionClosedException("), ["R-C08-3"])
M("c08-revert-both-close-guards", "C08", [("_core", "                if self.connected:\n                    self.send_close()", "                if True:\n                    self.send_close()"),
                                          ("_core", "        if not self.connected:\n            # RFC 6455 5.5.1: an endpoint sends at most one close frame\n            raise WebSocketConnectionClosedException(", "        if False:\n            # RFC 6455 5.5.1: an endpoint sends at most one close frame\n            raise WebSocketConnectionClosedException(")], ["R-C08-3"])
M("c08-revert-fix-close-release", "C08", ("_core", "            # close): still release the transport\n            self.shutdown()\n            return", "            # close): still release the transport\n            return"), ["R-C08-5"])
M("c08-status-gt-length16", "C08", ("_core", "        if status < 0 or status >= ABNF.LENGTH_16:\n            raise ValueError(\"code is invalid range\")\n\n        try:", "        if status < 0 or status > ABNF.LENGTH_16:\n            raise ValueError(\"code is invalid range\")\n\n        try:"), ["R-C08-1"])
M("c08-status-negative-ok", "C08", ("_core", "        if status < 0 or status >= ABNF.LENGTH_16:\n            raise ValueError(\"code is invalid range\")\n        if not self.connected:", "        if status >= ABNF.LENGTH_16:\n            raise ValueError(\"code is invalid range\")\n        if not self.connected:"), ["R-C08-1"])
M("c08-connected-false-before-check", "C08", ("_core", "        if status < 0 or status >= ABNF.LENGTH_16:\n            raise ValueError(\"code is invalid range\")\n        if not self.connected:\n            # RFC", "        was = self.connected\n        self.connected = False\n        if status < 0 or status >= ABNF.LENGTH_16:\n            raise ValueError(\"code is invalid range\")\n        self.connected = was\n        if not self.connected:\n            # RFC"), ["R-C08-1"], expect="violation")
M("c08-close-little-endian", "C08", ("_core", "            self.connected = False\n            self.send(struct.pack(\"!H\", status) + reason, ABNF.OPCODE_CLOSE)", "            self.connected = False\n            self.send(struct.pack(\"<H\", status) + reason, ABNF.OPCODE_CLOSE)"), ["R-C08-2"])
M("c08-close-reason-first", "C08", ("_core", "            self.connected = False\n            self.send(struct.pack(\"!H\", status) + reason, ABNF.OPCODE_CLOSE)", "            self.connected = False\n            self.send(reason + struct.pack(\"!H\", status), ABNF.OPCODE_CLOSE)"), ["R-C08-2"])
M("c08-close-no-connected-test", "C08", ("_core", "        if not self.connected:\n            # the closing handshake", "        if False:\n            # the closing handshake"), ["R-C08-3", "R-C08-5"])
M("c08-recv-no-close-on-loss", "C08", ("_core", "        except WebSocketConnectionClosedException:\n            if self.sock:\n                self.sock.close()\n            self.sock = None", "        except WebSocketConnectionClosedException:\n            self.sock = None"), ["R-C08-4"])
M("c08-recv-keeps-connected", "C08", ("_core", "            self.sock = None\n            self.connected = False\n            raise", "            self.sock = None\n            raise"), ["R-C08-4"])
M("c08-recv-timeout-drops", "C08", [("_core", "        except WebSocketConnectionClosedException:\n            if self.sock:", "        except WebSocketException:\n            if self.sock:"),
                                    ("_core", "    WebSocketProtocolException,\n)", "    WebSocketProtocolException,\n    WebSocketException,\n)")], ["R-C08-4"])
M("c08-shutdown-no-close", "C08", ("_core", "        if self.sock:\n            self.sock.close()\n            self.sock = None\n            self.connected = False", "        if self.sock:\n            self.sock = None\n            self.connected = False"), ["R-C08-4", "R-C08-5"])
M("c08-close-skips-shutdown", "C08", ("_core", "        except:\n            pass\n\n        self.shutdown()", "        except:\n            return\n\n        self.shutdown()"), ["R-C08-5"])
M("c08-socket-send-none-unchecked", "C08", ("_socket", "    if not sock:\n        raise WebSocketConnectionClosedException(\"socket is already closed.\")\n\n    def _send():", "    def _send():"), ["R-C08-6"])
M("c08-direct-recv", "C08", ("_core", "        return self.frame_buffer.recv_frame()", "        self.sock.recv(0)\n        return self.frame_buffer.recv_frame()"), ["R-C08-6"])
M("c08-connected-true-early", "C08", ("_core", "        self.sock_opt.timeout = options.get(\"timeout\", self.sock_opt.timeout)\n        self.sock, addrs = connect(", "        self.sock_opt.timeout = options.get(\"timeout\", self.sock_opt.timeout)\n        self.connected = True\n        self.sock, addrs = connect("), ["R-C08-6"])
M("c08-wait-except-continue", "C08", ("_core", "                    break\n                except:\n                    break", "                    break\n                except:\n                    continue"), ["R-C08-7"])  # with timeout=None an error from the transport would spin forever
M("c08-wait-no-time-bound", "C08", ("_core", "            while timeout is None or time.time() - start_time < timeout:", "            while True:"), ["R-C08-7"])
M("c08-wait-no-settimeout", "C08", ("_core", "            self.sock.settimeout(timeout)\n            start_time", "            start_time"), ["R-C08-7"])
M("c08-spec-close-guard-rewritten", "C08", ("_core", "        if status < 0 or status >= ABNF.LENGTH_16:\n            raise ValueError(\"code is invalid range\")\n\n        try:", "        if not 0 <= status <= 0xFFFF:\n            raise ValueError(\"code is invalid range\")\n\n        try:"), expect="silent")

# ------------------------------------------------------------------ C12
M("c12-lock-inside-loop", "C12", ("_core", "        with self.lock:\n            while data:\n                l = self._send(data)\n                data = data[l:]", "        while data:\n            with self.lock:\n                l = self._send(data)\n            data = data[l:]"), ["R-C12-1"])
M("c12-send-lock-dropped", "C12", ("_core", "        with self.lock:\n            while data:\n                l = self._send(data)\n                data = data[l:]", "        if True:\n            while data:\n                l = self._send(data)\n                data = data[l:]"), ["R-C12-1"])
M("c12-wrong-lock", "C12", ("_core", "        with self.lock:\n            while data:", "        with self.readlock:\n            while data:"), ["R-C12-1", "R-C12-5"])
M("c12-remainder-off-by-one", "C12", ("_core", "                data = data[l:]", "                data = data[l + 1:]"), ["R-C12-2"])
M("c12-remainder-fixed-1", "C12", ("_core", "                data = data[l:]", "                data = data[1:]"), ["R-C12-2"])
M("c12-if-instead-of-while", "C12", ("_core", "            while data:\n                l = self._send(data)", "            if data:\n                l = self._send(data)"), ["R-C12-2"])
M("c12-readlock-dropped", "C12", ("_core", "        with self.readlock:\n            opcode, data = self.recv_data()", "        if True:\n            opcode, data = self.recv_data()"), ["R-C12-3"])
M("c12-frame-lock-dropped", "C12", ("_abnf", "    def recv_frame(self) -> ABNF:\n        with self.lock:", "    def recv_frame(self) -> ABNF:\n        if True:"), ["R-C12-3"])
M("c12-frame-lock-split", "C12", ("_abnf", "            # Payload\n            payload = self.recv_strict(length)", "            pass\n        with self.lock:\n            # Payload\n            payload = self.recv_strict(length)"), ["R-C12-3"])
M("c12-default-multithread-false", "C12", ("_core", "        enable_multithread: bool = True,\n        skip_utf8_validation: bool = False,\n        dispatcher", "        enable_multithread: bool = False,\n        skip_utf8_validation: bool = False,\n        dispatcher"), ["R-C12-4"])
M("c12-nolock-both-arms", "C12", ("_core", "            self.lock = threading.Lock()\n            self.readlock = threading.Lock()", "            self.lock = NoLock()\n            self.readlock = NoLock()"), ["R-C12-4"])
M("c12-same-lock-twice", "C12", ("_core", "            self.lock = threading.Lock()\n            self.readlock = threading.Lock()", "            self.lock = threading.Lock()\n            self.readlock = self.lock"), ["R-C12-4"])
M("c12-create-connection-default-false", "C12", ("_core", 'enable_multithread = options.pop("enable_multithread", True)', 'enable_multithread = options.pop("enable_multithread", False)'), ["R-C12-4"])
M("c12-app-multithread-false", "C12", ("_app", "                enable_multithread=True,", "                enable_multithread=False,"), ["R-C12-4"])
M("c12-socket-send-twice", "C12", ("_socket", "        if sock.gettimeout() == 0:\n            return sock.send(data)\n        else:\n            return _send()", "        if sock.gettimeout() == 0:\n            sock.send(data)\n            return sock.send(data)\n        else:\n            return _send()"), ["R-C12-6"])
M("c12-socket-send-returns-len", "C12", ("_socket", "        if sock.gettimeout() == 0:\n            return sock.send(data)\n        else:", "        if sock.gettimeout() == 0:\n            sock.send(data)\n            return len(data)\n        else:"), ["R-C12-6"])
M("c12-pong-under-frame-lock-cycle", "C12", ("_core", "        with self.lock:\n            while data:", "        with self.lock, self.readlock:\n            while data:"), ["R-C12-5"])
M("c12-spec-lock-around-more", "C12", ("_core", "        data = frame.format()\n        length = len(data)\n        if isEnabledForTrace():\n            trace(f\"++Sent raw: {repr(data)}\")\n            trace(f\"++Sent decoded: {frame.__str__()}\")\n        with self.lock:\n            while data:\n                l = self._send(data)\n                data = data[l:]",
                                    "        with self.lock:\n            data = frame.format()\n            length = len(data)\n            while data:\n                l = self._send(data)\n                data = data[l:]"), expect="silent")

# ------------------------------------------------------------------ C03
M("c03-clear-before-payload", "C03", ("_abnf", "            # Payload\n            payload = self.recv_strict(length)\n            if has_mask:\n                payload = ABNF.mask(mask_value, payload)\n\n            # Reset for next frame\n            self.clear()\n",
                                      "            # Reset for next frame\n            self.clear()\n\n            # Payload\n            payload = self.recv_strict(length)\n            if has_mask:\n                payload = ABNF.mask(mask_value, payload)\n"), ["R-C03-2"])
M("c03-length-local-only", "C03", [("_abnf", "            self.length = struct.unpack(\"!H\", v)[0]", "            self.length_tmp = struct.unpack(\"!H\", v)[0]"),
                                   ("_abnf", "            if self.has_received_length():\n                self.recv_length()\n            length = self.length", "            if self.has_received_length():\n                self.recv_length()\n            length = self.length if self.length is not None else self.length_tmp")], ["R-C03-2"])
M("c03-header-two-reads", "C03", ("_abnf", "        header = self.recv_strict(2)\n        b1 = header[0]", "        header = self.recv_strict(1) + self.recv_strict(1)\n        b1 = header[0]"), ["R-C03-2"])
M("c03-buffer-reset-at-top", "C03", ("_abnf", "        shortage = bufsize - sum(map(len, self.recv_buffer))\n        while shortage > 0:", "        shortage = bufsize - sum(map(len, self.recv_buffer))\n        held = self.recv_buffer\n        self.recv_buffer = []\n        while shortage > 0:"), ["R-C03-1", "R-C02-5"])
M("c03-append-late", "C03", ("_abnf", "            bytes_ = self.recv(min(16384, shortage))\n            self.recv_buffer.append(bytes_)\n            shortage -= len(bytes_)", "            bytes_ = self.recv(min(16384, shortage))\n            shortage -= len(bytes_)\n            self.recv_buffer.append(bytes_)"), ["R-C03-1"])
M("c03-recv-line-4096", "C03", ("_socket", "        c = recv(sock, 1)", "        c = recv(sock, 4096)"), ["R-C03-4"])
M("c03-read-headers-direct-recv", "C03", ("_http", "        line = recv_line(sock)\n", "        line = sock.recv(4096)\n"), ["R-C03-4"])
M("c03-timeouterror-not-mapped", "C03", ("_socket", "    except TimeoutError:\n        raise WebSocketTimeoutException(\"Connection timed out\")\n", "    except TimeoutError:\n        raise\n"), ["R-C03-5"])
M("c03-timeout-as-closed", "C03", ("_socket", "        message = extract_err_message(e)\n        raise WebSocketTimeoutException(message)\n    except SSLError as e:", "        message = extract_err_message(e)\n        raise WebSocketConnectionClosedException(message)\n    except SSLError as e:"), expect="silent")  # socket.timeout is TimeoutError on the analysed Python (>=3.10): the earlier handler takes it, this one is dead
M("c03-ssl-timeout-not-mapped", "C03", ("_socket", "        if isinstance(message, str) and \"timed out\" in message:\n            raise WebSocketTimeoutException(message)\n        else:\n            raise\n\n    if not bytes_:", "        raise\n\n    if not bytes_:"), ["R-C03-5"])
M("c03-empty-read-returned", "C03", ("_socket", "    if not bytes_:\n        raise WebSocketConnectionClosedException(\"Connection to remote host was lost.\")\n", "    pass\n"), ["R-C03-5"])
M("c03-mask-stage-stores-none", "C03", ("_abnf", 'self.mask_value = self.recv_strict(4) if self.has_mask() else ""', 'self.mask_value = self.recv_strict(4) if self.has_mask() else None'), expect="silent")  # unmasked frames then re-run a read-free stage: harmless
M("c03-header-cleared-on-entry", "C03", ("_abnf", "        with self.lock:\n            # Header\n            if self.has_received_header():", "        with self.lock:\n            self.header = None\n            # Header\n            if self.has_received_header():"), ["R-C03-2"])
M("c03-spec-stage-test-rewritten", "C03", ("_abnf", "            if self.has_received_length():\n                self.recv_length()", "            if self.length is None:\n                self.recv_length()"), expect="silent")

# ------------------------------------------------------------------ C09
M("c09-revert-fix-redirect-exhausted", "C09", ("_core", "            if self.handshake_response.status in SUPPORTED_REDIRECT_STATUSES:\n                # redirect_limit exhausted", "            if False:\n                # redirect_limit exhausted"), ["R-C09-4"])
M("c09-status-200-success", "C09", ("_handshake", "SUCCESS_STATUSES = SUPPORTED_REDIRECT_STATUSES + (HTTPStatus.SWITCHING_PROTOCOLS,)", "SUCCESS_STATUSES = SUPPORTED_REDIRECT_STATUSES + (HTTPStatus.SWITCHING_PROTOCOLS, HTTPStatus.OK)"), ["R-C09-1"])
M("c09-status-gate-inverted-subset", "C09", ("_handshake", "    if status not in success_statuses:", "    if status not in success_statuses and status >= 400:"), ["R-C09-1"])
M("c09-304-redirect", "C09", ("_handshake", "    HTTPStatus.PERMANENT_REDIRECT,\n)", "    HTTPStatus.PERMANENT_REDIRECT,\n    HTTPStatus.NOT_MODIFIED,\n)"), ["R-C09-1"])
M("c09-validate-skipped", "C09", ("_handshake", "    if not success:\n        raise WebSocketException(\"Invalid WebSocket Header\")", "    if not success:\n        pass"), ["R-C09-1"])
M("c09-validate-true-before-digest", "C09", ("_handshake", "    result = headers.get(\"sec-websocket-accept\", None)\n    if not result:\n        return False, None", "    result = headers.get(\"sec-websocket-accept\", None)\n    if not result:\n        return True, subproto"), ["R-C09-2"])
M("c09-digest-self-compare", "C09", ("_handshake", "    if hmac.compare_digest(hashed, result):", "    if hmac.compare_digest(hashed, hashed):"), ["R-C09-2"])
M("c09-digest-ignored", "C09", ("_handshake", "    if hmac.compare_digest(hashed, result):\n        return True, subproto\n    else:\n        return False, None", "    hmac.compare_digest(hashed, result)\n    return True, subproto"), ["R-C09-2"])
M("c09-guid-typo", "C09", ("_handshake", "258EAFA5-E914-47DA-95CA-C5AB0DC85B11", "258EAFA5-E914-47DA-95CA-C5AB0DC85B12"), ["R-C09-2"])
M("c09-upgrade-substring", "C09", ("_handshake", "        r = [x.strip().lower() for x in r.split(\",\")]\n        if v not in r:", "        r = r.lower()\n        if v not in r:"), ["R-C09-2"])
M("c09-connection-unchecked", "C09", ("_handshake", "    \"connection\": \"upgrade\",\n", ""), ["R-C09-2"])
M("c09-no-strip", "C09", ("_handshake", "        r = [x.strip().lower() for x in r.split(\",\")]", "        r = [x.lower() for x in r.split(\",\")]"), ["R-C09-2"])
M("c09-subproto-unchecked", "C09", ("_handshake", "        if not subproto or subproto.lower() not in [s.lower() for s in subprotocols]:", "        if not subproto:"), ["R-C09-2"])
M("c09-subproto-case-sensitive", "C09", ("_handshake", "        if not subproto or subproto.lower() not in [s.lower() for s in subprotocols]:", "        if not subproto or subproto not in subprotocols:"), ["R-C09-2"])
M("c09-second-key-for-validation", "C09", ("_handshake", "    success, subproto = _validate(resp, key, options.get(\"subprotocols\"))", "    success, subproto = _validate(resp, _create_sec_websocket_key(), options.get(\"subprotocols\"))"), ["R-C09-3"])
M("c09-caller-key-not-used", "C09", ("_handshake", "        key = options[\"header\"][\"Sec-WebSocket-Key\"]", "        pass"), ["R-C09-3"])
M("c09-connected-before-handshake", "C09", ("_core", "        try:\n            self.handshake_response = handshake(self.sock, url, *addrs, **options)", "        try:\n            self.connected = True\n            self.handshake_response = handshake(self.sock, url, *addrs, **options)"), ["R-C09-5", "R-C09-4"])
M("c09-handler-no-close", "C09", ("_core", "        except:\n            if self.sock:\n                self.sock.close()\n                self.sock = None\n            raise", "        except:\n            if self.sock:\n                self.sock = None\n            raise"), ["R-C09-5"])
M("c09-handler-swallows", "C09", ("_core", "                self.sock.close()\n                self.sock = None\n            raise\n", "                self.sock.close()\n                self.sock = None\n"), ["R-C09-5"])
M("c09-extra-follow", "C09", ("_core", '            for _ in range(options.pop("redirect_limit", 3)):', '            for _ in range(options.pop("redirect_limit", 3) + 1):'), ["R-C09-4"])
M("c09-old-socket-not-closed-on-redirect", "C09", ("_core", "                    url = self.handshake_response.headers[\"location\"]\n                    self.sock.close()\n", "                    url = self.handshake_response.headers[\"location\"]\n"), ["R-C09-5"])
M("c09-spec-status-eq-101", "C09", ("_handshake", "    if status in SUPPORTED_REDIRECT_STATUSES:\n        return handshake_response(status, resp, None)", "    if status != 101:\n        return handshake_response(status, resp, None)"), expect="silent")

# ------------------------------------------------------------------ C18
M("c18-default-port-8080", "C18", ("_url", "        if not port:\n            port = 80\n", "        if not port:\n            port = 8080\n"), ["R-C18-1"])
M("c18-wss-default-444", "C18", ("_url", "            port = 443", "            port = 444"), ["R-C18-1"])
M("c18-ws-secure", "C18", ("_url", "    if scheme == \"ws\":\n        if not port:", "    if scheme == \"ws\":\n        is_secure = True\n        if not port:"), ["R-C18-1"])
M("c18-wss-not-secure", "C18", ("_url", "        is_secure = True\n", "        is_secure = False\n"), ["R-C18-1"])
M("c18-query-dropped", "C18", ("_url", "    if parsed.query:\n        resource += f\"?{parsed.query}\"", "    if parsed.query:\n        pass"), ["R-C18-1"])
M("c18-query-ampersand", "C18", ("_url", "resource += f\"?{parsed.query}\"", "resource += f\"&{parsed.query}\""), ["R-C18-1"])
M("c18-empty-path-empty", "C18", ("_url", "    else:\n        resource = \"/\"", "    else:\n        resource = \"\""), ["R-C18-1"])
M("c18-foreign-scheme-accepted", "C18", ("_url", "    else:\n        raise ValueError(\"scheme %s is invalid\" % scheme)", "    else:\n        port = port or 80"), ["R-C18-1"])
M("c18-no-host-accepted", "C18", ("_url", "    else:\n        raise ValueError(\"hostname is invalid\")", "    else:\n        hostname = \"localhost\""), ["R-C18-1"])
M("c18-explicit-port-ignored", "C18", ("_url", "    if parsed.port:\n        port = parsed.port", "    if parsed.port:\n        pass"), ["R-C18-1"])
M("c18-resolve-before-parse", "C18", ("_http", "    hostname, port_from_url, resource, is_secure = parse_url(url)\n\n    if socket:", "    socket_probe = __import__('socket').getaddrinfo(url, 0)\n    hostname, port_from_url, resource, is_secure = parse_url(url)\n\n    if socket:"), ["R-C18-2"], expect="violation")
M("c18-refused-raises", "C18", ("_http", "                if error.errno not in eConnRefused:\n                    raise error\n                err = error\n                continue", "                raise error"), ["R-C18-3"])
M("c18-enetunreach-dropped", "C18", [("_http", "                        errno.WSAECONNREFUSED,\n                        errno.ENETUNREACH,\n", "                        errno.WSAECONNREFUSED,\n"), ("_http", "eConnRefused = (errno.ECONNREFUSED, errno.ENETUNREACH)", "eConnRefused = (errno.ECONNREFUSED,)")], ["R-C18-3"])
M("c18-any-error-falls-through", "C18", ("_http", "                if error.errno not in eConnRefused:\n                    raise error\n", ""), ["R-C18-3"])
M("c18-failed-socket-not-closed", "C18", ("_http", "            except socket.error as error:\n                sock.close()\n", "            except socket.error as error:\n"), ["R-C18-3"])
M("c18-last-error-swallowed", "C18", ("_http", "    else:\n        if err:\n            raise err\n", "    else:\n        pass\n"), ["R-C18-3"])
M("c18-only-first-address", "C18", ("_http", "        else:\n            continue\n        break\n    else:", "        else:\n            break\n        break\n    else:"), ["R-C18-3"])
M("c18-options-after-connect", "C18", [("_http", "        for opts in sockopt:\n            sock.setsockopt(*opts)\n\n        address = addrinfo[4]", "        address = addrinfo[4]"), ("_http", "            else:\n                break\n        else:\n            continue\n        break", "            else:\n                for opts in sockopt:\n                    sock.setsockopt(*opts)\n                break\n        else:\n            continue\n        break")], ["R-C18-4"])
M("c18-timeout-not-applied", "C18", ("_http", "        sock.settimeout(timeout)\n        for opts in DEFAULT_SOCKET_OPTION:", "        for opts in DEFAULT_SOCKET_OPTION:"), ["R-C18-4"])
M("c18-nodelay-removed", "C18", ("_socket", "DEFAULT_SOCKET_OPTION = [(socket.SOL_TCP, socket.TCP_NODELAY, 1)]", "DEFAULT_SOCKET_OPTION = []"), ["R-C18-4"])
M("c18-dispatcher-index-2", "C18", ("_app", "parse_url(self.url)[3]", "parse_url(self.url)[2]"), ["R-C18-5"])
M("c18-host-port-swapped-tuple", "C18", ("_http", "        return sock, (hostname, port_from_url, resource)\n    except:", "        return sock, (hostname, resource, port_from_url)\n    except:"), ["R-C18-5"])
M("c18-dispatcher-inverted", "C18", ("_app", "        if is_ssl:\n            return SSLDispatcher(self, timeout)\n        return Dispatcher(self, timeout)", "        if not is_ssl:\n            return SSLDispatcher(self, timeout)\n        return Dispatcher(self, timeout)"), ["R-C18-5"])
M("c18-spec-scheme-dict", "C18", ("_url", "    if parsed.path:\n        resource = parsed.path\n    else:\n        resource = \"/\"", "    resource = parsed.path if parsed.path else \"/\""), expect="silent")

# ------------------------------------------------------------------ C11
M("c11-default-cert-none", "C11", ("_http", '    sslopt: dict = {"cert_reqs": ssl.CERT_REQUIRED}', '    sslopt: dict = {"cert_reqs": ssl.CERT_NONE}'), ["R-C11-1"])
M("c11-check-hostname-default-false", "C11", ('_http', '            context.check_hostname = sslopt.get("check_hostname", True)', '            context.check_hostname = sslopt.get("check_hostname", False)'), ["R-C11-1"])
M("c11-protocol-tls", "C11", ("_http", 'sslopt.get("ssl_version", ssl.PROTOCOL_TLS_CLIENT)', 'sslopt.get("ssl_version", ssl.PROTOCOL_TLS)'), ["R-C11-1"])
M("c11-update-before-default", "C11", ("_http", '    sslopt: dict = {"cert_reqs": ssl.CERT_REQUIRED}\n    sslopt.update(user_sslopt)', '    sslopt: dict = dict(user_sslopt)\n    sslopt.update({"cert_reqs": ssl.CERT_REQUIRED})'), ["R-C11-1", "R-C11-3"])
M("c11-sni-none", "C11", ("_http", "        server_hostname=hostname,\n    )", "        server_hostname=None,\n    )"), ["R-C11-1"])
M("c11-server-hostname-ignored", "C11", ("_http", '    if sslopt.get("server_hostname", None):\n        hostname = sslopt["server_hostname"]', '    if sslopt.get("server_hostname", None):\n        pass'), ["R-C11-1"])
M("c11-env-overrides-explicit-ca", "C11", ("_http", '        and os.path.isfile(cert_path)\n        and user_sslopt.get("ca_certs", None) is None\n', '        and os.path.isfile(cert_path)\n'), ["R-C11-1"])
M("c11-no-default-certs", "C11", ("_http", '            elif hasattr(context, "load_default_certs"):\n                context.load_default_certs(ssl.Purpose.SERVER_AUTH)', '            elif hasattr(context, "load_default_certs"):\n                pass'), ["R-C11-1"])
M("c11-verify-mode-optional", "C11", ("_http", '            context.verify_mode = sslopt.get("cert_reqs", ssl.CERT_REQUIRED)', '            context.verify_mode = ssl.CERT_OPTIONAL'), ["R-C11-1"])
M("c11-check-hostname-false-disables-verify", "C11", ("_http", '        if sslopt.get("cert_reqs", ssl.CERT_NONE) == ssl.CERT_NONE and not sslopt.get(\n            "check_hostname", False\n        ):', '        if sslopt.get("cert_reqs", ssl.CERT_NONE) == ssl.CERT_NONE or not sslopt.get(\n            "check_hostname", True\n        ):'), ["R-C11-1"])
M("c11-user-context-modified", "C11", ("_http", "    return context.wrap_socket(\n        sock,", "    context.check_hostname = False\n    return context.wrap_socket(\n        sock,"), ["R-C11-1"])
M("c11-wrap-dropped", "C11", ("_http", "        if is_secure:\n            if HAVE_SSL:\n                sock = _ssl_socket(sock, options.sslopt, hostname)\n            else:\n                raise WebSocketException(\"SSL not available.\")\n\n        return sock, (hostname, port_from_url, resource)", "        return sock, (hostname, port_from_url, resource)"), ["R-C11-2"])
M("c11-wrap-always", "C11", ("_http", "        if is_secure:\n            if HAVE_SSL:\n                sock = _ssl_socket(sock, options.sslopt, hostname)\n            else:\n                raise WebSocketException(\"SSL not available.\")\n\n        return sock, (hostname, port_from_url, resource)", "        if True:\n            if HAVE_SSL:\n                sock = _ssl_socket(sock, options.sslopt, hostname)\n            else:\n                raise WebSocketException(\"SSL not available.\")\n\n        return sock, (hostname, port_from_url, resource)"), ["R-C11-2"])
M("c11-tls-before-tunnel", "C11", ("_http", "        if need_tunnel:\n            sock = _tunnel(sock, hostname, port_from_url, auth)\n\n        if is_secure:\n            if HAVE_SSL:\n                sock = _ssl_socket(sock, options.sslopt, hostname)\n            else:\n                raise WebSocketException(\"SSL not available.\")\n",
                                   "        if is_secure:\n            if HAVE_SSL:\n                sock = _ssl_socket(sock, options.sslopt, hostname)\n            else:\n                raise WebSocketException(\"SSL not available.\")\n        if need_tunnel:\n            sock = _tunnel(sock, hostname, port_from_url, auth)\n"), ["R-C11-3"])
M("c11-wrong-hostname-to-ssl", "C11", ("_http", "                sock = _ssl_socket(sock, options.sslopt, hostname)\n            else:\n                raise WebSocketException(\"SSL not available.\")\n\n        return sock, (hostname, port_from_url, resource)", "                sock = _ssl_socket(sock, options.sslopt, resource)\n            else:\n                raise WebSocketException(\"SSL not available.\")\n\n        return sock, (hostname, port_from_url, resource)"), ["R-C18-5"], expect="silent")
M("c11-spec-verify-mode-via-local", "C11", ('_http', '            context.verify_mode = sslopt.get("cert_reqs", ssl.CERT_REQUIRED)', '            mode = sslopt.get("cert_reqs", ssl.CERT_REQUIRED)\n            context.verify_mode = mode'), expect="silent")
