"""E8 -- finite automata over bytes: reference UTF-8 DFA (Unicode Table 3-7) and
language equivalence by product construction with a shortest distinguishing word."""
from __future__ import annotations

from collections import deque
from typing import Callable, Dict, Hashable, List, Optional, Tuple

# Unicode 15, Table 3-7 "Well-Formed UTF-8 Byte Sequences"
TABLE_3_7 = [
    [(0x00, 0x7F)],
    [(0xC2, 0xDF), (0x80, 0xBF)],
    [(0xE0, 0xE0), (0xA0, 0xBF), (0x80, 0xBF)],
    [(0xE1, 0xEC), (0x80, 0xBF), (0x80, 0xBF)],
    [(0xED, 0xED), (0x80, 0x9F), (0x80, 0xBF)],
    [(0xEE, 0xEF), (0x80, 0xBF), (0x80, 0xBF)],
    [(0xF0, 0xF0), (0x90, 0xBF), (0x80, 0xBF), (0x80, 0xBF)],
    [(0xF1, 0xF3), (0x80, 0xBF), (0x80, 0xBF), (0x80, 0xBF)],
    [(0xF4, 0xF4), (0x80, 0x8F), (0x80, 0xBF), (0x80, 0xBF)],
]


class RefUtf8:
    """Reference DFA: state = ('start') | (row, pos) | 'dead'."""
    start = "start"

    @staticmethod
    def step(state, b: int):
        if state == "dead":
            return "dead"
        if state == "start":
            for r, row in enumerate(TABLE_3_7):
                lo, hi = row[0]
                if lo <= b <= hi:
                    return "start" if len(row) == 1 else (r, 1)
            return "dead"
        r, pos = state
        row = TABLE_3_7[r]
        lo, hi = row[pos]
        if lo <= b <= hi:
            return "start" if pos + 1 == len(row) else (r, pos + 1)
        return "dead"

    @staticmethod
    def accepting(state) -> bool:
        return state == "start"


class RefUtf8Regex:
    """Second, independently written reference (W3C 'Multilingual form encoding' regular expression),
    compiled by hand into the same step/accepting interface via derivative-style matching on byte classes."""
    start = ()
    SEQS = [
        [(0x00, 0x7F)],
        [(0xC2, 0xDF), (0x80, 0xBF)],
        [(0xE0, 0xE0), (0xA0, 0xBF), (0x80, 0xBF)],
        [(0xE1, 0xEC), (0x80, 0xBF), (0x80, 0xBF)],
        [(0xEE, 0xEF), (0x80, 0xBF), (0x80, 0xBF)],
        [(0xED, 0xED), (0x80, 0x9F), (0x80, 0xBF)],
        [(0xF0, 0xF0), (0x90, 0xBF), (0x80, 0xBF), (0x80, 0xBF)],
        [(0xF1, 0xF3), (0x80, 0xBF), (0x80, 0xBF), (0x80, 0xBF)],
        [(0xF4, 0xF4), (0x80, 0x8F), (0x80, 0xBF), (0x80, 0xBF)],
    ]

    @classmethod
    def step(cls, state, b: int):
        if state is None:
            return None
        if state == ():
            cands = [(i, 0) for i in range(len(cls.SEQS))]
        else:
            cands = list(state)
        nxt = []
        for i, pos in cands:
            lo, hi = cls.SEQS[i][pos]
            if lo <= b <= hi:
                if pos + 1 == len(cls.SEQS[i]):
                    return ()
                nxt.append((i, pos + 1))
        return tuple(nxt) if nxt else None

    @staticmethod
    def accepting(state) -> bool:
        return state == ()


def distinguish(step_a: Callable, acc_a: Callable, start_a, step_b: Callable, acc_b: Callable, start_b,
                alphabet=range(256)) -> Tuple[Optional[bytes], int, int]:
    """BFS over the product automaton. Returns (shortest word accepted by exactly one side or None,
    product states visited, transitions)."""
    seen = {(start_a, start_b): (None, None)}
    dq = deque([(start_a, start_b)])
    trans = 0

    def word(p):
        out = []
        while seen[p][0] is not None:
            prev, b = seen[p]
            out.append(b)
            p = prev
        return bytes(reversed(out))

    if acc_a(start_a) != acc_b(start_b):
        return b"", 1, 0
    while dq:
        p = dq.popleft()
        a, b = p
        for ch in alphabet:
            na, nb = step_a(a, ch), step_b(b, ch)
            trans += 1
            q = (na, nb)
            if q in seen:
                continue
            seen[q] = (p, ch)
            if acc_a(na) != acc_b(nb):
                return word(q), len(seen), trans
            dq.append(q)
    return None, len(seen), trans
