"""Ownership lint: which functions write to state that is shared between objects (class-level or module-level mutable
objects, module globals)?  A write is an augmented assignment, a subscript / slice store or delete, or a call of a mutating
method, on a name that is (an alias of) such an object.  Purely syntactic over resolved names of one module; used with an
explicit table of the sites that are shared on purpose."""
from __future__ import annotations

import ast
from typing import Dict, List, Set, Tuple

MUTATORS = {"append", "extend", "insert", "pop", "remove", "clear", "sort", "reverse", "update", "setdefault", "popitem", "add", "discard",
            "__setitem__", "__delitem__", "__iadd__", "write", "truncate"}
MUTABLE_CTORS = {"list", "dict", "set", "bytearray", "deque", "defaultdict", "OrderedDict", "array", "SimpleCookieJar", "SimpleCookie"}


def _is_mutable_init(v: ast.AST) -> bool:
    if isinstance(v, (ast.List, ast.Dict, ast.Set, ast.ListComp, ast.DictComp, ast.SetComp)):
        return True
    if isinstance(v, ast.Call):
        f = v.func
        name = f.id if isinstance(f, ast.Name) else f.attr if isinstance(f, ast.Attribute) else ""
        return name in MUTABLE_CTORS
    return False


def shared_writes(tree: ast.Module) -> List[Tuple[str, int, str]]:
    """-> [(function qualname, line, description)]"""
    mod_mut: Set[str] = set()          # module-level names bound to mutable objects
    mod_names: Set[str] = set()
    classes: Dict[str, ast.ClassDef] = {}
    for st in tree.body:
        for n in ast.walk(st) if isinstance(st, (ast.Try, ast.If)) else [st]:
            if isinstance(n, ast.Assign):
                for t in n.targets:
                    if isinstance(t, ast.Name):
                        mod_names.add(t.id)
                        if _is_mutable_init(n.value):
                            mod_mut.add(t.id)
            elif isinstance(n, ast.AnnAssign) and isinstance(n.target, ast.Name) and n.value is not None:
                mod_names.add(n.target.id)
                if _is_mutable_init(n.value):
                    mod_mut.add(n.target.id)
            elif isinstance(n, ast.ClassDef):
                classes[n.name] = n
    cls_mut: Dict[str, Set[str]] = {}
    for cn, c in classes.items():
        attrs = set()
        for st in c.body:
            tg = st.targets if isinstance(st, ast.Assign) else [st.target] if isinstance(st, ast.AnnAssign) and st.value is not None else []
            for t in tg:
                if isinstance(t, ast.Name) and _is_mutable_init(st.value):
                    attrs.add(t.id)
        # an attribute that some method (re)binds on self is per-object from then on
        rebound = {t.attr for m in ast.walk(c) if isinstance(m, (ast.Assign, ast.AnnAssign)) for t in (m.targets if isinstance(m, ast.Assign) else [m.target])
                   if isinstance(t, ast.Attribute) and isinstance(t.value, ast.Name) and t.value.id == "self"}
        cls_mut[cn] = attrs - rebound
    out: List[Tuple[str, int, str]] = []

    def visit_fn(fn: ast.FunctionDef, qual: str, cls: str):
        globs = {g for n in ast.walk(fn) if isinstance(n, ast.Global) for g in n.names}
        local_bound = {a.arg for a in fn.args.posonlyargs + fn.args.args + fn.args.kwonlyargs} | \
                      ({fn.args.vararg.arg} if fn.args.vararg else set()) | ({fn.args.kwarg.arg} if fn.args.kwarg else set())
        tainted: Dict[str, str] = {}

        def shared_expr(e: ast.AST) -> str:
            """non-empty description when e denotes a shared mutable object"""
            if isinstance(e, ast.Name):
                if e.id in tainted:
                    return tainted[e.id]
                if e.id in mod_mut and e.id not in local_bound:
                    return f"module-level {e.id}"
                return ""
            if isinstance(e, ast.Attribute):
                b = e.value
                if isinstance(b, ast.Name) and b.id in classes and e.attr in cls_mut.get(b.id, ()):
                    return f"class attribute {b.id}.{e.attr}"
                if isinstance(b, ast.Name) and b.id in ("self", "cls") and cls and e.attr in cls_mut.get(cls, ()):
                    return f"class attribute {cls}.{e.attr} (reached through {b.id})"
                if isinstance(b, ast.Attribute) and b.attr == "__class__" and cls and e.attr in cls_mut.get(cls, ()):
                    return f"class attribute {cls}.{e.attr}"
                return ""
            if isinstance(e, ast.Subscript):
                return ""  # an element of a shared container: writes *to the container* are what is reported
            return ""

        for n in ast.walk(fn):
            if n is not fn and isinstance(n, (ast.FunctionDef, ast.AsyncFunctionDef, ast.Lambda)):
                continue
            if isinstance(n, ast.Assign) and len(n.targets) == 1 and isinstance(n.targets[0], ast.Name):
                d = shared_expr(n.value)
                if d:
                    tainted[n.targets[0].id] = d
                local_bound.add(n.targets[0].id)
        def is_globals_call(e):
            return isinstance(e, ast.Call) and isinstance(e.func, ast.Name) and e.func.id == "globals" and not e.args

        for n in ast.walk(fn):
            if isinstance(n, ast.Global):
                continue
            if isinstance(n, ast.Call) and isinstance(n.func, ast.Attribute) and n.func.attr in ("update", "setdefault", "__setitem__") and is_globals_call(n.func.value):
                out.append((qual, n.lineno, "assigns module globals through globals()"))
            if isinstance(n, (ast.Assign, ast.AnnAssign)):
                for t in (n.targets if isinstance(n, ast.Assign) else [n.target]):
                    if isinstance(t, ast.Subscript) and is_globals_call(t.value):
                        out.append((qual, n.lineno, "assigns a module global through globals()"))
                    if isinstance(t, ast.Name) and t.id in globs:
                        out.append((qual, n.lineno, f"assigns module global {t.id}"))
                    if isinstance(t, ast.Subscript) and shared_expr(t.value):
                        out.append((qual, n.lineno, f"stores into {shared_expr(t.value)}"))
                    if isinstance(t, ast.Attribute) and isinstance(t.value, ast.Name) and t.value.id in classes:
                        out.append((qual, n.lineno, f"assigns class attribute {t.value.id}.{t.attr}"))
            elif isinstance(n, ast.AugAssign):
                t = n.target
                if isinstance(t, ast.Name) and (t.id in globs or shared_expr(t)):
                    out.append((qual, n.lineno, f"updates {shared_expr(t) or 'module global ' + t.id} in place"))
                elif isinstance(t, (ast.Attribute, ast.Subscript)) and shared_expr(t if isinstance(t, ast.Attribute) else t.value):
                    out.append((qual, n.lineno, f"updates {shared_expr(t if isinstance(t, ast.Attribute) else t.value)} in place"))
            elif isinstance(n, ast.Delete):
                for t in n.targets:
                    if isinstance(t, ast.Subscript) and shared_expr(t.value):
                        out.append((qual, n.lineno, f"deletes from {shared_expr(t.value)}"))
            elif isinstance(n, ast.Call) and isinstance(n.func, ast.Attribute) and n.func.attr in MUTATORS and shared_expr(n.func.value):
                out.append((qual, n.lineno, f"calls .{n.func.attr}() on {shared_expr(n.func.value)}"))

    def walk_defs(body, prefix, cls):
        for st in body:
            if isinstance(st, (ast.FunctionDef, ast.AsyncFunctionDef)):
                visit_fn(st, f"{prefix}{st.name}", cls)
                walk_defs(st.body, f"{prefix}{st.name}.", cls)
            elif isinstance(st, ast.ClassDef):
                walk_defs(st.body, f"{prefix}{st.name}.", st.name)
            elif isinstance(st, (ast.Try, ast.If, ast.With)):
                for blk in ([st.body, getattr(st, "orelse", [])] + ([h.body for h in st.handlers] + [st.finalbody] if isinstance(st, ast.Try) else [])):
                    walk_defs(blk, prefix, cls)

    walk_defs(tree.body, "", "")
    out.extend(_module_instances(tree))
    out.extend(_mutable_defaults(tree))
    out.extend(_import_time_environment(tree))
    return out


def _toplevel(tree):
    """module-level statements, looking through try / if / with blocks (optional-dependency fallbacks live there)"""
    work = list(tree.body)
    while work:
        st = work.pop(0)
        yield st
        if isinstance(st, (ast.Try, ast.If, ast.With)):
            blocks = [st.body, getattr(st, "orelse", [])]
            if isinstance(st, ast.Try):
                blocks += [h.body for h in st.handlers] + [st.finalbody]
            for b in blocks:
                work = list(b) + work


def _self_writes(fn: ast.FunctionDef):
    """attributes of `self` a method (re)binds or mutates"""
    if not fn.args.args:
        return []
    me = fn.args.args[0].arg
    hits = []
    for n in ast.walk(fn):
        tg = []
        if isinstance(n, ast.Assign):
            tg = list(n.targets)
        elif isinstance(n, (ast.AugAssign, ast.AnnAssign)):
            tg = [n.target]
        flat = []
        for t in tg:
            flat.extend(t.elts if isinstance(t, (ast.Tuple, ast.List)) else [t])
        for t in flat:
            base = t.value if isinstance(t, ast.Subscript) else t
            if isinstance(base, ast.Attribute) and isinstance(base.value, ast.Name) and base.value.id == me:
                hits.append((base.attr, n.lineno))
        if isinstance(n, ast.Call) and isinstance(n.func, ast.Attribute) and n.func.attr in MUTATORS:
            b = n.func.value
            if isinstance(b, ast.Attribute) and isinstance(b.value, ast.Name) and b.value.id == me:
                hits.append((b.attr, n.lineno))
    return hits


def _module_instances(tree: ast.Module) -> List[Tuple[str, int, str]]:
    """One object of a class of this module, made at import time and used by functions: whatever its methods keep on `self`
    outside __init__ is carried from one call to the next, for every connection of the process."""
    classes = {st.name: st for st in _toplevel(tree) if isinstance(st, ast.ClassDef)}
    out = []
    for st in _toplevel(tree):
        if not (isinstance(st, (ast.Assign, ast.AnnAssign)) and isinstance(getattr(st, "value", None), ast.Call)):
            continue
        f = st.value.func
        cname = f.id if isinstance(f, ast.Name) else None
        if cname not in classes:
            continue
        names = [t.id for t in (st.targets if isinstance(st, ast.Assign) else [st.target]) if isinstance(t, ast.Name)]
        if not names:
            continue
        # methods called on the instance from functions of the module
        called = {n.func.attr for fn in ast.walk(tree) if isinstance(fn, (ast.FunctionDef, ast.Lambda)) for n in ast.walk(fn)
                  if isinstance(n, ast.Call) and isinstance(n.func, ast.Attribute) and isinstance(n.func.value, ast.Name) and n.func.value.id in names}
        cls = classes[cname]
        methods = {m.name: m for m in cls.body if isinstance(m, ast.FunctionDef)}
        # closure over self-calls inside the class
        work, reach = list(called), set()
        while work:
            m = work.pop()
            if m in reach or m not in methods:
                continue
            reach.add(m)
            for n in ast.walk(methods[m]):
                if isinstance(n, ast.Call) and isinstance(n.func, ast.Attribute) and isinstance(n.func.value, ast.Name) and n.func.value.id == "self":
                    work.append(n.func.attr)
        for m in sorted(reach):
            if m == "__init__":
                continue
            for attr, line in _self_writes(methods[m])[:1]:
                out.append((f"{cname}.{m}", line, f"keeps state in self.{attr} of {names[0]}, the one {cname} object made at import time and used for every call"))
    return out


def _mutable_defaults(tree: ast.Module) -> List[Tuple[str, int, str]]:
    """def f(x, acc={}): a default that is a mutable object is made once; a body that changes it (or hands it out) shares it between calls."""
    out = []

    def visit(fn, qual):
        a = fn.args
        pos = a.posonlyargs + a.args
        pairs = list(zip(pos[len(pos) - len(a.defaults):], a.defaults)) + [(p, d) for p, d in zip(a.kwonlyargs, a.kw_defaults) if d is not None]
        for p, d in pairs:
            if not _is_mutable_init(d):
                continue
            name = p.arg
            rebound_first = False
            for n in ast.walk(fn):
                hit = None
                if isinstance(n, (ast.Assign, ast.AugAssign, ast.AnnAssign)):
                    for t in (n.targets if isinstance(n, ast.Assign) else [n.target]):
                        if isinstance(t, ast.Subscript) and isinstance(t.value, ast.Name) and t.value.id == name:
                            hit = f"stores into its default argument {name}"
                        if isinstance(n, ast.AugAssign) and isinstance(t, ast.Name) and t.id == name:
                            hit = f"updates its default argument {name} in place"
                elif isinstance(n, ast.Call) and isinstance(n.func, ast.Attribute) and n.func.attr in MUTATORS and isinstance(n.func.value, ast.Name) and n.func.value.id == name:
                    hit = f"calls .{n.func.attr}() on its default argument {name}"
                elif isinstance(n, ast.Delete) and any(isinstance(t, ast.Subscript) and isinstance(t.value, ast.Name) and t.value.id == name for t in n.targets):
                    hit = f"deletes from its default argument {name}"
                elif isinstance(n, ast.Return) and n.value is not None and any(isinstance(x, ast.Name) and x.id == name for x in ast.walk(n.value)):
                    hit = f"returns its default argument {name}"
                if hit:
                    out.append((qual, n.lineno, f"{hit} ({ast.unparse(d)[:20]}: one object made at definition time and shared by every call that omits the argument)"))
                    break

    def rec(body, prefix):
        for st in body:
            if isinstance(st, (ast.FunctionDef, ast.AsyncFunctionDef)):
                visit(st, f"{prefix}{st.name}")
                rec(st.body, f"{prefix}{st.name}.")
            elif isinstance(st, ast.ClassDef):
                rec(st.body, f"{prefix}{st.name}.")
            elif isinstance(st, (ast.Try, ast.If, ast.With)):
                for blk in ([st.body, getattr(st, "orelse", [])] + ([h.body for h in st.handlers] + [st.finalbody] if isinstance(st, ast.Try) else [])):
                    rec(blk, prefix)

    rec(tree.body, "")
    return out


def _import_time_environment(tree: ast.Module) -> List[Tuple[str, int, str]]:
    """os.environ consulted by a module-level statement: the value of the process at import time is frozen in; what the
    environment says when a connection is made is never looked at."""
    out = []
    for st in _toplevel(tree):
        if isinstance(st, (ast.FunctionDef, ast.AsyncFunctionDef, ast.ClassDef, ast.Try, ast.If, ast.With, ast.Import, ast.ImportFrom)):
            continue
        for n in ast.walk(st):
            if isinstance(n, (ast.Lambda,)):
                break
            env = (isinstance(n, ast.Attribute) and n.attr == "environ" and isinstance(n.value, ast.Name) and n.value.id == "os") or \
                  (isinstance(n, ast.Call) and ((isinstance(n.func, ast.Attribute) and n.func.attr == "getenv") or (isinstance(n.func, ast.Name) and n.func.id == "getenv")))
            if env:
                tgt = ast.unparse(st.targets[0]) if isinstance(st, ast.Assign) else ast.unparse(st.target) if isinstance(st, ast.AnnAssign) else "<module>"
                out.append((f"<import> {tgt}", st.lineno, f"reads the environment when the module is imported ({ast.unparse(st)[:70]}): later changes of the variable are never seen"))
                break
    return out
