"""Objects of trusted standard-library value classes (http.cookies.SimpleCookie / Morsel, ...) as *native* heap cells:
when a constructor or method of such a class is applied to constants (or to other native objects) the analyser lets the
standard library compute the result -- the same device as folding base64 / struct on constants -- instead of modelling
the class by hand.  Nothing of the repository is executed: only stdlib code, on values the abstract run has pinned down.
A callable of the analysed code handed to the library (sorted(..., key=f)) is called back through the interpreter."""
from __future__ import annotations

import http.cookies as _hc
import re as _re
from typing import Any

from .values import C, NONE, App, Ext, Fn, Bound, HDict, HList, HObj, Lam, Ref, Tup, Value


class HNative:
    """heap cell holding one stdlib object"""

    def __init__(self, obj: Any):
        self.obj = obj
        self.label = ""

    def __repr__(self):
        return f"native<{type(self.obj).__name__}>"


CTORS = {"http.cookies.SimpleCookie": _hc.SimpleCookie, "http.cookies.Morsel": _hc.Morsel, "http.cookies.BaseCookie": _hc.BaseCookie,
         # regular expressions: compiled patterns and match objects are library values; compiling a constant pattern and applying it to
         # a constant subject is computed by the library (a symbolic subject stays an opaque call)
         "re.compile": _re.compile, "re.match": _re.match, "re.fullmatch": _re.fullmatch, "re.search": _re.search, "re.sub": _re.sub,
         "re.split": _re.split, "re.findall": _re.findall, "re.escape": _re.escape}
NATIVE_TYPES = (_hc.BaseCookie, _hc.Morsel, _re.Pattern, _re.Match)


class NotConcrete(Exception):
    pass


def is_native(run, v) -> bool:
    return isinstance(v, Ref) and isinstance(run.heap.get(v.addr) or _base(run, v), HNative)


def _base(run, v):
    b = getattr(run.interp, "base", None)
    return b.heap.get(v.addr) if b is not None and b is not run else None


def obj_of(run, v):
    return run.cell(v).obj


def to_py(I, run, v: Value, node=None):
    v = I.resolve(run, v)
    if isinstance(v, C):
        return v.v
    if isinstance(v, Ext) and v.name.startswith("re.") and v.name[3:].isupper() and hasattr(_re, v.name[3:]):
        return getattr(_re, v.name[3:])   # re.ASCII, re.IGNORECASE, ...
    if isinstance(v, Tup):
        return tuple(to_py(I, run, x, node) for x in v.items)
    if isinstance(v, Ref):
        c = run.cell(v)
        if isinstance(c, HNative):
            return c.obj
        if isinstance(c, HList):
            return [to_py(I, run, x, node) for x in c.items]
        if isinstance(c, HDict) and not c.open and not c.sym_items:
            return {k: to_py(I, run, x, node) for k, x in c.items.items()}
    if isinstance(v, (Lam, Fn, Bound)) or (isinstance(v, App) and v.op == "hof"):
        def callback(*a):
            return to_py(I, run, I.call(run, v, [from_py(I, run, x) for x in a], {}, node), node)
        return callback
    raise NotConcrete(repr(v))


def from_py(I, run, o) -> Value:
    if o is None or isinstance(o, (bool, int, float, str, bytes)):
        return C(o)
    if isinstance(o, _re.RegexFlag):
        return C(int(o))
    if isinstance(o, NATIVE_TYPES):
        for a, c in run.heap.items():
            if isinstance(c, HNative) and c.obj is o:
                return Ref(a)
        return run.alloc(HNative(o))
    if isinstance(o, tuple):
        return Tup(tuple(from_py(I, run, x) for x in o))
    if isinstance(o, dict):
        d = HDict()
        for k, x in o.items():
            d.items[k] = from_py(I, run, x)
        return run.alloc(d)
    if isinstance(o, (list, set, frozenset)) or hasattr(o, "__iter__"):
        return run.alloc(HList([from_py(I, run, x) for x in o]))
    raise NotConcrete(repr(o))


def _exc_name(e: BaseException) -> str:
    t = type(e)
    return f"builtins.{t.__name__}" if t.__module__ == "builtins" else f"{t.__module__}.{t.__name__}"


def _raise(I, run, e: BaseException, node):
    from .absint import RaiseSig
    raise RaiseSig(run.alloc(HObj(_exc_name(e), {"args": Tup(tuple(C(str(a)) for a in e.args))})), node)


def apply(I, run, fn, args, kwargs, node) -> Value:
    """fn(*args, **kwargs) computed by the library; its exceptions become exceptions of the analysed run"""
    try:
        pa = [to_py(I, run, a, node) for a in args]
        pk = {k: to_py(I, run, v, node) for k, v in kwargs.items()}
    except NotConcrete:
        return None
    from .absint import RaiseSig
    try:
        r = fn(*pa, **pk)
    except RaiseSig:
        raise
    except (_hc.CookieError, _re.error, TypeError, ValueError, KeyError, IndexError, AttributeError, StopIteration) as e:
        _raise(I, run, e, node)
    try:
        return from_py(I, run, r)
    except NotConcrete:
        return None


def construct(I, run, name, args, kwargs, node):
    return apply(I, run, CTORS[name], args, kwargs, node)


def getattr_(I, run, ref: Ref, name: str, node) -> Value:
    o = obj_of(run, ref)
    try:
        a = getattr(o, name)
    except AttributeError as e:
        _raise(I, run, e, node)
    if callable(a):
        return App("nmethod", (ref, C(name)))
    return from_py(I, run, a)


def call_method(I, run, ref: Ref, name: str, args, kwargs, node) -> Value:
    r = apply(I, run, getattr(obj_of(run, ref), name), args, kwargs, node)
    if r is None:
        from .transfer import external
        return external(I, run, f"{type(obj_of(run, ref)).__name__}.{name}", args, kwargs, node, recv=ref)
    return r
