#!/usr/bin/env python3
"""Evaluate a behaviour-preserving refactoring produced by a sub-agent: every check must stay silent (exit 0).
usage: refactor_eval.py <module> <variant>     (worktree /tmp/wt/R_<module>, variant r1|r2|r3)"""
import json, os, re, shutil, subprocess, sys

def sh(cmd, cwd=None, env=None, timeout=1800):
    p = subprocess.run(cmd, shell=True, cwd=cwd, env=env, capture_output=True, text=True, timeout=timeout)
    return p.returncode, p.stdout + p.stderr

def main():
    mod, var = sys.argv[1], sys.argv[2]
    rebased = "--rebased" in sys.argv   # a refactoring re-applied on a later HEAD by a sub-agent (worktree /tmp/wt/RB_<mod>)
    wt = f"/tmp/wt/RB_{mod}" if rebased else (f"/tmp/wt/S_{mod}" if os.path.isdir(f"/tmp/wt/S_{mod}/SEED/{var}") else f"/tmp/wt/R_{mod}")
    sd = f"{wt}/SEED/{var}"
    env = dict(os.environ, PYTHONPATH=wt)
    sh("git checkout -- websocket", cwd=wt)
    rc, o = sh(f"git apply {sd}/patch.diff", cwd=wt)
    if rc:
        print("patch does not apply in worktree", o[-300:]); return 2
    rc, o = sh("/venv/bin/python -m pytest -q -p no:cacheprovider --timeout=900 --continue-on-collection-errors", cwd=wt, env=env)
    m = re.search(r"(\d+) passed", o)
    rc_d, od = sh(f"/venv/bin/python SEED/{var}/diff_check.py", cwd=wt, env=env)
    sh("git checkout -- websocket", cwd=wt)
    dst = f"/verif/seeded/refactor-{mod}-{var}"
    os.makedirs(dst, exist_ok=True)
    if rebased:
        shutil.copy(f"{sd}/patch.diff", f"{dst}/patch.rebased.diff")
        if os.path.exists(f"{sd}/diff_check.py"):
            shutil.copy(f"{sd}/diff_check.py", f"{dst}/diff_check.rebased.py")
    else:
        for f in ("patch.diff", "diff_check.py", "meta.json"):
            if os.path.exists(f"{sd}/{f}"):
                shutil.copy(f"{sd}/{f}", f"{dst}/{f}")
    rc, o = sh("git status --porcelain", cwd="/repo")
    if o.strip():
        print("/repo dirty"); return 2
    pfile = f"{dst}/patch.rebased.diff" if rebased else f"{dst}/patch.diff"
    rc, o = sh(f"git apply {pfile}", cwd="/repo")
    if rc:
        rc, o = sh(f"patch -p1 -F3 -s --no-backup-if-mismatch -i {pfile}", cwd="/repo")
        if rc:
            sh("git checkout -- . && rm -f websocket/*.rej websocket/*.orig", cwd="/repo"); print("patch does not apply to /repo"); return 2
    res = {}
    try:
        for i in range(1, 21):
            p = f"C{i:02d}"
            rc, o = sh(f"python3-vt -m wsverif check {p} --tier quick", cwd="/verif")
            if rc != 0:
                res[p] = {"exit": rc, "lines": [l[:400] for l in o.splitlines() if l.startswith(("VIOLATION", "ANALYSIS-ERROR", "  /"))][:6]}
    finally:
        sh("git checkout -- .", cwd="/repo")
        sh("git checkout -- evidence", cwd="/verif")
    meta = json.load(open(f"{dst}/meta.json")) if os.path.exists(f"{dst}/meta.json") else {}
    if rebased:
        rc_h, head = sh("git log --format=%h -1", cwd="/repo")
        meta["rebased_base"] = head.strip()
        try:
            meta["rebased_note"] = json.load(open(f"{sd}/meta.json")).get("notes", "")
        except Exception:
            pass
    meta["evaluation"] = {"suite_with_patch": m.group(0) if m else o[-100:], "diff_check_rc": rc_d, "alarms": res, "silent": not res}
    json.dump(meta, open(f"{dst}/meta.json", "w"), indent=1)
    print(mod, var, "suite", m.group(0) if m else "?", "diff_check", rc_d, "ALARMS" if res else "silent", json.dumps(res)[:1500])
    return 0

if __name__ == "__main__":
    sys.exit(main())
