"""Per-property claim texts for MANIFEST.json (edited by hand, consumed by gen_manifest.py)."""
FIX_COMMITS = ["da7f963 (C05 control frames)", "41cccf6 (C06 truncated UTF-8)", "36eeb72 (C08 one close frame)", "ccb92e4 (C08 close() releases transport)", "4a48db5 (C09 redirect limit)", "e29292b (C19 no_proxy)", "0ec712f (C20 cookie jar case)", "8c7ea56 (C10 Connection header)", "5f85bd6 (C14/C15 close frame routing)", "0ab4b1b (C14 error flag reset)", "bc38171 1ed0f6e 316cc91 5082854 7d835cd bbb4ece (C17 internal exceptions / declared length / Location)", "a82c0f4 (C13 on_data type of fragmented messages)", "a2e8684 (C14 close() from on_open)", "93ab368 (C14 close() from another thread is not an error)"]
NOT_APPLICABLE = {}
CLAIMS = {
 "C10": {
  "text": "_get_handshake_headers is interpreted over the option grid (quick: default plus every one- and two-dimension variation, ~180 classes; thorough: the full product of 11 dimensions) with the key and the resource as symbolic holes; the resulting header list is compared line by line with an independently written reference request (request line, Upgrade, Host with IPv6 brackets and non-default port, Origin by scheme / option / suppression, Key, Version 13, Connection, subprotocols, custom headers list/dict/None values, cookie order, two empty terminators). handshake(): one write of the CRLF join before the first read. Key: base64 of os.urandom(16), one draw per request, two draws for two requests, never cached.",
  "note": "Not decided: acceptance by an independent server implementation, header injection through option values, the URL->resource mapping inside urlparse (C18). Option values are representatives per class.",
  "technique": "abstract interpretation with string templates over a configuration grid + reference comparison",
 },
 "C11": {
  "text": "_ssl_socket -> _wrap_sni_socket interpreted over the grid cert_reqs x check_hostname x ca_certs x ca_cert_path x CA-bundle env {unset,file,dir} x server_hostname x user context (quick: 1- and 2-dimension slices; thorough: all 576); ordered effects on the SSLContext (protocol PROTOCOL_TLS_CLIENT, check_hostname, verify_mode, trust-store call, SNI name, user context untouched) compared with an oracle; _http.connect wraps exactly when the URL is secure (direct and via HTTP proxy), after the CONNECT tunnel, nothing written between wrap and return; caller options override defaults.",
  "note": "Not decided: what OpenSSL concludes about a certificate chain or host name given these settings (trusted library); python_socks (SOCKS) path is absent from the build.",
  "technique": "abstract interpretation with abstract dicts over a configuration grid; effect-order check",
 },
 "C13": {
  "text": "The closures of run_forever are interpreted with the low-level socket replaced at its method boundary: routing table of read() per opcode x on_cont_message x skip_utf8 (ordered callbacks with their argument terms, one recv_data_frame(True) per call); _callback contains user exceptions (on_error, no propagation; KeyboardInterrupt not swallowed) and is the only caller of user callbacks; setSock: connect < exactly one of on_open/on_reconnect < dispatcher.read; loop skeleton of Dispatcher and SSLDispatcher: one read per readiness, check_callback on every iteration including silent ones, selector closed on all exits, pending() before blocking.",
  "note": "Not decided: latency ('as soon as the bytes have arrived'), TLS record buffering inside ssl, behaviour of an external dispatcher (rel). Dispatcher loops are explored to a bounded unrolling; the per-iteration shape is what is checked.",
  "technique": "abstract interpretation of closures with effect traces; sibling comparison of the two dispatcher loops",
 },
 "C14": {
  "text": "teardown is idempotent with the flag read and set in one lock section; on_close is its last effect after stopping pings, clearing keep_running, closing and dropping the socket; whole run_forever with the built-in dispatcher over ending scenarios (refused connect, frame then loss, close frame, ping timeout, KeyboardInterrupt, app.close() from a callback): exactly one on_close, last; close frame reaches on_close as (be16(data), utf-8(data[2:])) by value flow and is not an error; result True iff on_error fired; error flag reset per run; ping thread signalled and joined; re-run refused while a socket exists.",
  "note": "A second thread's close()/teardown is injected at every recorded effect of the run (single preemption, lock-aware); not decided: preemption between two bytecodes that have no effect in between, more than one preemption, KeyboardInterrupt at arbitrary bytecodes, external dispatcher teardown.",
  "technique": "typestate / effect-trace analysis by abstract interpretation over a scenario enumeration",
 },
 "C15": {
  "text": "handleDisconnect over reconnect x dispatcher family x exception class: reconnect path never tears down nor fires on_close, stops the ping thread first, reschedules setSock through an external dispatcher with the interval; setSock(reconnecting): old socket shut down before the new one, ping thread started once after connect; DispatcherBase.reconnect sleeps then calls reconnector(reconnecting=True), WrappedDispatcher agrees; run_forever with reconnect=5: loss -> sleep -> new WebSocket without on_close, server close frame or app.close() end the run with one connection; loops read keep_running.",
  "note": "Not decided: that the attempt happens after the interval in real time, liveness of the retry loop, number of simultaneously live transports under races, behaviour inside rel.",
  "technique": "effect-trace analysis by abstract interpretation over a scenario enumeration",
 },
 "C16": {
  "text": "Argument validation over 36 (interval, timeout) order classes: refused before any state change iff timeout<=0, interval<0, or both positive and interval<=timeout; check() evaluated on every weak ordering of last-ping, deadline, now, last-pong (61 classes) against raise <=> P!=0 and N>Q and (G<P or G>Q); check runs on silent iterations (C13 rule shared); ping loop: wait(interval) on the stop event before every ping, last_ping_tm stamped before ping(payload), send errors contained, stops on the event; pong time stamped on PONG only; timestamps zeroed on start/stop.",
  "note": "Not decided: every real-time bound (no later than two timeouts, periodicity) and interleavings of the ping thread with the reader -- time and schedules are outside static reach.",
  "technique": "constant propagation over ordering classes + effect-trace analysis of the ping loop",
 },
 "C17": {
  "text": "May-raise analysis under a hostile peer by abstract interpretation: values from the transport are opaque; bytes.decode, int(), indexing/unpacking split() results, header key lookups are explored in their failing mode; the class of every exception leaving read_headers / handshake / connect / recv (all four validation x fragment-delivery configurations, idle and in-message) / the proxy exchange must be in the WebSocketException hierarchy or a transport error. decode is discharged only by a truthy validate_utf8 of the same term, int() by a truthy isdigit() of the same term. Read sizes constant or min(constant, ...); every loop iteration consumes input or leaves; all 57 explicit raises name library exceptions (or re-raise / refuse the caller's own arguments).",
  "note": "Not decided: AttributeError/TypeError in general (no nullness or type inference), hangs inside the transport, memory growth from unbounded header lines; indexing of bytes objects is not modelled as IndexError (close body length is C05's).",
  "technique": "may-raise / taint analysis by abstract interpretation with failure-mode forking; syntactic read-size and raise-class lints",
 },
 "C18": {
  "text": "parse_url interpreted with urlparse as an opaque record: complete scheme x explicit-port x path x query table plus the three refusals; _http.connect: parse_url precedes every network call and its ValueError propagates untouched; _open_socket over address lists of length 1..3 with every pattern of ok/refused/unreachable/other outcomes against a reference loop (order, fall-through set contains ECONNREFUSED and ENETUNREACH, failed sockets closed, last error raised); timeout + DEFAULT_SOCKET_OPTION (incl. TCP_NODELAY) + caller options before connect on every socket; tuple agreement between parse_url, the resolver call, TLS wrap, dispatcher choice and the handshake call.",
  "note": "Not decided: the URL grammar itself (urllib.parse.urlparse: user-info, case, brackets, port range) and name resolution. errno constants are those of the build platform.",
  "technique": "abstract interpretation with opaque records + exhaustive outcome-pattern enumeration against a reference loop",
 },
 "C19": {
  "text": "get_proxy_info decision table over exemption x option x port x environment (lower/upper case, per scheme) x scheme (60 classes); _is_no_proxy_host by constant propagation over 139 cases: look-alike host names on a small label alphabet, every IPv4 prefix length 0..32 inside/outside, malformed prefixes, '*', exact, environment fallback, against an independent reference; _get_addrinfo_list dials the proxy (port default 80) iff a proxy applies; _tunnel: one write of the CONNECT template with origin host:port and base64(user[:pass]), proceeds only on status 200, any unreadable reply -> WebSocketProxyException; tunnel addressed to the origin, before TLS.",
  "note": "Not decided: SOCKS proxies (python_socks absent from the build), DNS. socket.inet_aton / struct / urlparse are the analyser's own stdlib applied to constants.",
  "technique": "constant propagation over case grids with reference comparison; string-template check of the CONNECT request",
 },
 "C20": {
  "text": "SimpleCookieJar.add/get interpreted on all histories of up to two responses (quick: 37, thorough: 56) over 7 Set-Cookie constants (domains in upper/lower case, with/without dot, without Domain) followed by 9 lookups (inside, outside, look-alike, case variants); the Cookie value equals an independent reference jar's on every (history, host); stored keys dotted and lower-case; no Domain -> not stored; single feeder (handshake_response.__init__), Set-Cookie lines merged with '; ', jar asked for the URL host.",
  "note": "Not decided: what http.cookies.SimpleCookie parses from arbitrary header text (the analyser's own stdlib is applied to the constants); histories longer than two responses.",
  "technique": "constant propagation over bounded histories with reference comparison",
 },

 "C01": {
  "text": "Structural necessary conditions of a well-formed client frame, decided from the source: ABNF.format is interpreted abstractly over all payload lengths (interval partition) giving the complete length-encoding table; the two header-byte expressions are normalised to a bit layout and compared with RFC 6455 5.2; every public sender is interpreted down to send_frame and the frame it builds is checked (rsv=0, mask=1, requested fin/opcode, UTF-8 text); exactly one key draw of 4 bytes whose result is both the wire prefix and the XOR key, from os.urandom unless a key source is configured; send_frame returns len(format()) and send returns it; only send_frame reaches the transport (call-graph closure over private wrappers); send_frame and recv_data_frame behave identically with trace logging on and off (observable effects, results and state compared); the pure-Python masking routine is folded on constants for every length 0..23 and the encoding boundaries against cyclic XOR.",
  "note": "Not decided (value properties): the XOR arithmetic of _mask for arbitrary payloads beyond its constants agreeing, str.encode, what an independent decoder recovers. Trusted: struct.pack, os.urandom, Python semantics as implemented by the interpreter's transfer functions.",
  "technique": "abstract interpretation (intervals, string/bytes templates, bit-field normalisation) + who-may-call lints",
 },
 "C02": {
  "text": "The receive path is interpreted over an opaque transport; on every path the fields of the ABNF object finally built are terms over the bytes read. Decided: reader bit layout of both header bytes equals RFC 6455 5.2 (and hence the writer's), the 7/16/64-bit length table with big-endian struct formats, the exact sequence and sizes of reads per frame (2 + extension + 4 iff masked + decoded length), unmask iff masked with (key, payload) in that order, recv_strict returns buffered[:n] and keeps buffered[n:] and never asks for more than is missing.",
  "note": "Not decided: byte-level equality with an independent decoder on arbitrary payload bytes. recv_strict's loop is explored to a bounded unrolling (its per-iteration shape is what is checked). Trusted: struct.unpack, list/bytes semantics.",
  "technique": "abstract interpretation with symbolic byte terms + bit-field normalisation; sibling check writer/reader layout",
 },
 "C03": {
  "text": "Exception-safety structure that segmentation independence rests on: recv_strict keeps every received byte when the transport raises at any call; a timeout injected at each read of recv_frame followed by a retry yields a frame identical (as a term over the successful reads) to an undisturbed run; handshake head is read with 1-byte requests only and nothing beyond it on the success path; TimeoutError/socket.timeout/SSL 'timed out' map to WebSocketTimeoutException, empty read to connection-closed; a timeout in the receive loop leaves reassembly and connection state untouched and writes nothing.",
  "note": "Not decided: equality of observations over all packetisations and timeout multiplicities (value/schedule property); termination arithmetic of recv_strict. One timeout per call is injected (single-fault), at every read position.",
  "technique": "abstract interpretation with fault injection at transport calls (typestate / effect traces)",
 },
 "C04": {
  "text": "Finite reassembly model decided exhaustively: reassembly state {idle, text, binary} x opcode class x fin x per-fragment delivery on/off, interpreted through recv_data_frame and continuous_frame.validate/add/is_fire/extract with symbolic payloads; delivery, first opcode, in-order concatenation shape (acc ++ payload), reset, isolation from CLOSE/PING/PONG between fragments; recv() decodes TEXT as utf-8 and returns BINARY unchanged.",
  "note": "Not decided: byte equality of concatenations for concrete contents (the shape acc ++ payload is what is shown); cross-message ordering follows from one-frame-per-iteration and is not separately shown.",
  "technique": "abstract interpretation of a finite state x input-class product with symbolic payloads",
 },
 "C06": {
  "text": "The validator's automaton is extracted from the source (transition function by constant folding of _decode's table lookups for every reachable state and byte; start state, early exits and final acceptance from _validate_utf8; when there is no separate step function, states are the loop-head values of the validator's live, relevant variables and transitions come from folding the validator on access word + byte) and proved language-equal to the Unicode Table 3-7 automaton by product construction (all byte strings); thorough tier also against a second independently written reference. Placement: validation is applied to the reassembled message (the validated term is the delivered term), never to fragments, unreachable with skip_utf8_validation, failures raise payload/protocol exceptions.",
  "note": "Trusted: the reference automaton written in the checker (cross-checked against a second one in the thorough tier). The optional wsaccel validator is absent from this build and not analysed.",
  "technique": "DFA extraction from a literal table + product-automaton equivalence; abstract interpretation for call placement",
 },
 "C07": {
  "text": "Per-opcode reply table of one iteration of the receive loop, from every reassembly state: PING (<=125) -> exactly one pong whose argument is the received frame's payload term, after the frame's last read and before the iteration ends, whether or not control frames are reported; PONG/data -> nothing written; CLOSE -> one send_close; pong()/ping() forward the payload unchanged (str encoded utf-8) with the right opcode.",
  "note": "Ordering of pongs across several pings follows from one frame per loop iteration and is not separately shown. Well-formedness of the pong frame itself is C01's.",
  "technique": "abstract interpretation: effect traces per input class",
 },
 "C08": {
  "text": "Typestate over (connected, sock): close()/send_close()/the reply to a server close/_recv/shutdown are interpreted from each abstract state. Decided: out-of-range status refused before any write or state change; close payload pack('!H',status)+reason with opcode CLOSE; a close frame is written only while connected and marks the object unconnected (so at most one per connection, including the reply path); sock is dropped only after close() with connected=False; close() releases the transport from every state; I/O on a released object raises connection-closed without a transport call; the wait loop of close() consults the clock before every read and leaves on any exception.",
  "note": "Not decided: that close() returns within its timeout (time), arbitrary interleavings of client calls and server events beyond the per-call typestate.",
  "technique": "typestate analysis by abstract interpretation (effect traces, state before/after each API call)",
 },
 "C09": {
  "text": "Status gate over all statuses 100-599 (interval partition); handshake() returns 101 only after a truthy _validate; the validator is decided over a grid of 864 header-value classes (Upgrade/Connection token lists, accept present/absent/equal, subprotocol offered/chosen) against an independent oracle, and the digest comparison is shown by value flow to compare base64(sha1(key+RFC GUID)) with the response's accept header; the key validated is the key sent; typestate of the response through the redirect loop for limits {default,0,1} (connected only with a final 101, at most limit follows); every failure closes every transport created, drops sock, leaves connected False and propagates.",
  "note": "Trusted: hashlib.sha1, base64, hmac.compare_digest. Header-value classes are representatives of the token-list shapes, not all strings. Timeouts/EOF at every response byte are covered only in that any exception takes the cleanup handler.",
  "technique": "abstract interpretation: constant propagation over a class grid, value-flow through opaque calls, typestate over the redirect loop",
 },
 "C12": {
  "text": "Lock discipline read off effect traces (with.enter/with.exit events): every transport write of a frame is inside `with self.lock` and all partial writes of one frame share one critical section; the retry sends data[l:] with l the accepted count and send_frame returns only with an empty remainder; recv() holds the read lock around recv_data; all reads of a frame and the stage reset are in one frame-lock section; the three locks are distinct threading.Lock objects unless enable_multithread=False, defaults are True; lock-order graph acyclic; _socket.send performs one accepted write and returns its count.",
  "note": "Beyond the lock discipline, one preemption is explored: at every recorded effect of a send_frame a second sender's complete send_frame is run (deferred while the lock object is held) and the transport must still see two intact frames (R-C12-8). General schedules (several preemptions, preemption between effect-free bytecodes) are not explored. Receivers bypassing recv() (recv_data*) take no read lock by design.",
  "technique": "lock-held-at-site and lock-order analysis over abstract-interpretation traces",
 },

 "C05": {
  "text": "Complete accept/reject table of the receive path, computed from the source by path-enumerating abstract interpretation of WebSocket.recv_frame and recv_data_frame (through frame_buffer, ABNF.validate, continuous_frame.validate): every leaf of the partition of (header bits x length x close code x reason validity x skip flag x reassembly state) is compared with RFC 6455 must-reject / must-accept boxes by interval intersection, so all 16 opcodes x 8 rsv combinations, all lengths and all 65536 close codes are decided, not sampled. A failing class is reported with a concrete witness input and the path.",
  "note": "Trusted: recv_strict(n) returns exactly n bytes (its own structure is C02/C03's), validate_utf8 is an opaque boolean here (decided by C06), struct.unpack('!H'/'!Q') ranges, Python semantics of the statement kinds the interpreter implements. Codes 1012-1014 and 1016-2999 are left free. Not decided: nothing else of substance.",
  "technique": "abstract interpretation with trace partitioning (intervals/finite sets) + box intersection against an RFC oracle table",
 },
}
