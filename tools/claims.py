"""Per-property claim texts for MANIFEST.json (edited by hand, consumed by gen_manifest.py)."""
FIX_COMMITS = ["da7f963 (C05 control frames)", "41cccf6 (C06 truncated UTF-8)", "36eeb72 (C08 one close frame)", "ccb92e4 (C08 close() releases transport)", "4a48db5 (C09 redirect limit)"]
NOT_APPLICABLE = {}
CLAIMS = {
 "C01": {
  "text": "Structural necessary conditions of a well-formed client frame, decided from the source: ABNF.format is interpreted abstractly over all payload lengths (interval partition) giving the complete length-encoding table; the two header-byte expressions are normalised to a bit layout and compared with RFC 6455 5.2; every public sender is interpreted down to send_frame and the frame it builds is checked (rsv=0, mask=1, requested fin/opcode, UTF-8 text); exactly one key draw of 4 bytes whose result is both the wire prefix and the XOR key, from os.urandom unless a key source is configured; send_frame returns len(format()) and send returns it; only send_frame reaches the transport; trace blocks are pure.",
  "note": "Not decided (value properties): the XOR arithmetic of _mask for arbitrary payloads beyond its constants agreeing, str.encode, what an independent decoder recovers. Trusted: struct.pack, os.urandom, Python semantics as implemented by the interpreter's transfer functions.",
  "technique": "abstract interpretation (intervals, string/bytes templates, bit-field normalisation) + who-may-call lints",
 },
 "C02": {
  "text": "The receive path is interpreted over an opaque transport; on every path the fields of the ABNF object finally built are terms over the bytes read. Decided: reader bit layout of both header bytes equals RFC 6455 5.2 (and hence the writer's), the 7/16/64-bit length table with big-endian struct formats, the exact sequence and sizes of reads per frame (2 + extension + 4 iff masked + decoded length), unmask iff masked with (key, payload) in that order, recv_strict returns buffered[:n] and keeps buffered[n:] and never asks for more than is missing.",
  "note": "Not decided: byte-level equality with an independent decoder on arbitrary payload bytes. recv_strict's loop is explored to a bounded unrolling (its per-iteration shape is what is checked). Trusted: struct.unpack, list/bytes semantics.",
  "technique": "abstract interpretation with symbolic byte terms + bit-field normalisation; sibling check writer/reader layout",
 },
 "C03": {
  "text": "Exception-safety structure that segmentation independence rests on: recv_strict keeps every received byte when the transport raises at any call; a timeout injected at each read of recv_frame followed by a retry yields a frame identical (as a term over the successful reads) to an undisturbed run; handshake head is read with 1-byte requests only and nothing beyond it on the success path; TimeoutError/socket.timeout/SSL 'timed out' map to WebSocketTimeoutException, empty read to connection-closed; a timeout in the receive loop leaves reassembly and connection state untouched and writes nothing.",
  "note": "Not decided: equality of observations over all packetisations and timeout multiplicities (value/schedule property); termination arithmetic of recv_strict. One timeout per call is injected (single-fault), at every read position.",
  "technique": "abstract interpretation with fault injection at transport calls (typestate / effect traces)",
 },
 "C04": {
  "text": "Finite reassembly model decided exhaustively: reassembly state {idle, text, binary} x opcode class x fin x per-fragment delivery on/off, interpreted through recv_data_frame and continuous_frame.validate/add/is_fire/extract with symbolic payloads; delivery, first opcode, in-order concatenation shape (acc ++ payload), reset, isolation from CLOSE/PING/PONG between fragments; recv() decodes TEXT as utf-8 and returns BINARY unchanged.",
  "note": "Not decided: byte equality of concatenations for concrete contents (the shape acc ++ payload is what is shown); cross-message ordering follows from one-frame-per-iteration and is not separately shown.",
  "technique": "abstract interpretation of a finite state x input-class product with symbolic payloads",
 },
 "C06": {
  "text": "The validator's automaton is extracted from the source (transition function by constant folding of _decode's table lookups for every reachable state and byte; start state, early exits and final acceptance from _validate_utf8) and proved language-equal to the Unicode Table 3-7 automaton by product construction (all byte strings); thorough tier also against a second independently written reference. Placement: validation is applied to the reassembled message (the validated term is the delivered term), never to fragments, unreachable with skip_utf8_validation, failures raise payload/protocol exceptions.",
  "note": "Trusted: the reference automaton written in the checker (cross-checked against a second one in the thorough tier). The optional wsaccel validator is absent from this build and not analysed.",
  "technique": "DFA extraction from a literal table + product-automaton equivalence; abstract interpretation for call placement",
 },
 "C07": {
  "text": "Per-opcode reply table of one iteration of the receive loop, from every reassembly state: PING (<=125) -> exactly one pong whose argument is the received frame's payload term, after the frame's last read and before the iteration ends, whether or not control frames are reported; PONG/data -> nothing written; CLOSE -> one send_close; pong()/ping() forward the payload unchanged (str encoded utf-8) with the right opcode.",
  "note": "Ordering of pongs across several pings follows from one frame per loop iteration and is not separately shown. Well-formedness of the pong frame itself is C01's.",
  "technique": "abstract interpretation: effect traces per input class",
 },
 "C08": {
  "text": "Typestate over (connected, sock): close()/send_close()/the reply to a server close/_recv/shutdown are interpreted from each abstract state. Decided: out-of-range status refused before any write or state change; close payload pack('!H',status)+reason with opcode CLOSE; a close frame is written only while connected and marks the object unconnected (so at most one per connection, including the reply path); sock is dropped only after close() with connected=False; close() releases the transport from every state; I/O on a released object raises connection-closed without a transport call; the wait loop of close() consults the clock before every read and leaves on any exception.",
  "note": "Not decided: that close() returns within its timeout (time), arbitrary interleavings of client calls and server events beyond the per-call typestate.",
  "technique": "typestate analysis by abstract interpretation (effect traces, state before/after each API call)",
 },
 "C09": {
  "text": "Status gate over all statuses 100-599 (interval partition); handshake() returns 101 only after a truthy _validate; the validator is decided over a grid of 864 header-value classes (Upgrade/Connection token lists, accept present/absent/equal, subprotocol offered/chosen) against an independent oracle, and the digest comparison is shown by value flow to compare base64(sha1(key+RFC GUID)) with the response's accept header; the key validated is the key sent; typestate of the response through the redirect loop for limits {default,0,1} (connected only with a final 101, at most limit follows); every failure closes every transport created, drops sock, leaves connected False and propagates.",
  "note": "Trusted: hashlib.sha1, base64, hmac.compare_digest. Header-value classes are representatives of the token-list shapes, not all strings. Timeouts/EOF at every response byte are covered only in that any exception takes the cleanup handler.",
  "technique": "abstract interpretation: constant propagation over a class grid, value-flow through opaque calls, typestate over the redirect loop",
 },
 "C12": {
  "text": "Lock discipline read off effect traces (with.enter/with.exit events): every transport write of a frame is inside `with self.lock` and all partial writes of one frame share one critical section; the retry sends data[l:] with l the accepted count and send_frame returns only with an empty remainder; recv() holds the read lock around recv_data; all reads of a frame and the stage reset are in one frame-lock section; the three locks are distinct threading.Lock objects unless enable_multithread=False, defaults are True; lock-order graph acyclic; _socket.send performs one accepted write and returns its count.",
  "note": "Thread interleavings are NOT explored: this decides the conditions under which the interleaving argument goes through, not atomicity under actual schedules. Receivers bypassing recv() (recv_data*) take no read lock by design.",
  "technique": "lock-held-at-site and lock-order analysis over abstract-interpretation traces",
 },

 "C05": {
  "text": "Complete accept/reject table of the receive path, computed from the source by path-enumerating abstract interpretation of WebSocket.recv_frame and recv_data_frame (through frame_buffer, ABNF.validate, continuous_frame.validate): every leaf of the partition of (header bits x length x close code x reason validity x skip flag x reassembly state) is compared with RFC 6455 must-reject / must-accept boxes by interval intersection, so all 16 opcodes x 8 rsv combinations, all lengths and all 65536 close codes are decided, not sampled. A failing class is reported with a concrete witness input and the path.",
  "note": "Trusted: recv_strict(n) returns exactly n bytes (its own structure is C02/C03's), validate_utf8 is an opaque boolean here (decided by C06), struct.unpack('!H'/'!Q') ranges, Python semantics of the statement kinds the interpreter implements. Codes 1012-1014 and 1016-2999 are left free. Not decided: nothing else of substance.",
  "technique": "abstract interpretation with trace partitioning (intervals/finite sets) + box intersection against an RFC oracle table",
 },
}
