"""Per-property claim texts for MANIFEST.json (edited by hand, consumed by gen_manifest.py)."""
FIX_COMMITS = ["da7f963 (C05 control frames)"]
NOT_APPLICABLE = {}
CLAIMS = {
 "C05": {
  "text": "Complete accept/reject table of the receive path, computed from the source by path-enumerating abstract interpretation of WebSocket.recv_frame and recv_data_frame (through frame_buffer, ABNF.validate, continuous_frame.validate): every leaf of the partition of (header bits x length x close code x reason validity x skip flag x reassembly state) is compared with RFC 6455 must-reject / must-accept boxes by interval intersection, so all 16 opcodes x 8 rsv combinations, all lengths and all 65536 close codes are decided, not sampled. A failing class is reported with a concrete witness input and the path.",
  "note": "Trusted: recv_strict(n) returns exactly n bytes (its own structure is C02/C03's), validate_utf8 is an opaque boolean here (decided by C06), struct.unpack('!H'/'!Q') ranges, Python semantics of the statement kinds the interpreter implements. Codes 1012-1014 and 1016-2999 are left free. Not decided: nothing else of substance.",
  "technique": "abstract interpretation with trace partitioning (intervals/finite sets) + box intersection against an RFC oracle table",
 },
}
