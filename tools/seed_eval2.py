#!/usr/bin/env python3
"""Confirm a sub-agent's seeded change and run the checks against it WITHOUT touching /repo:
the patched package is copied to a scratch tree and analysed through WSVERIF_REPO.
usage: seed_eval2.py <worktree> <Cnn> <variant> [--all]"""
import json, os, re, shutil, subprocess, sys, tempfile

def sh(cmd, cwd=None, env=None, timeout=1800):
    p = subprocess.run(cmd, shell=True, cwd=cwd, env=env, capture_output=True, text=True, timeout=timeout)
    return p.returncode, p.stdout + p.stderr

def main():
    wt, pid, var = sys.argv[1], sys.argv[2], sys.argv[3]
    run_all = "--all" in sys.argv
    sd = f"{wt}/SEED/{var}"
    env = dict(os.environ, PYTHONPATH=wt)
    sh("git checkout -- websocket", cwd=wt)
    rc, o = sh(f"git apply {sd}/patch.diff", cwd=wt)
    if rc:
        print("patch does not apply", o); return 2
    scratch = tempfile.mkdtemp(prefix=f"seed_{pid}_{var}_", dir="/tmp")
    try:
        shutil.copytree(f"{wt}/websocket", f"{scratch}/websocket", ignore=shutil.ignore_patterns("tests", "__pycache__"))
        rc, o = sh("/venv/bin/python -m pytest -q -p no:cacheprovider --timeout=900 --continue-on-collection-errors", cwd=wt, env=env)
        m = re.search(r"(\d+) passed", o)
        rc1, o1 = sh(f"/venv/bin/python SEED/{var}/demo.py", cwd=wt, env=env)
        sh("git checkout -- websocket", cwd=wt)
        rc2, o2 = sh(f"/venv/bin/python SEED/{var}/demo.py", cwd=wt, env=env)
        confirmed = bool(m and m.group(1) == "38" and rc1 != 0 and rc2 == 0)
        dst = f"/verif/seeded/{pid}-{var}"
        os.makedirs(dst, exist_ok=True)
        for f in ("patch.diff", "demo.py", "meta.json"):
            shutil.copy(f"{sd}/{f}", f"{dst}/{f}")
        props = [pid] if not run_all else [f"C{i:02d}" for i in range(1, 21)]
        res = {}
        for p in props:
            rc, o = sh(f"python3-vt -m wsverif check {p} --tier quick --no-write", cwd="/verif", env=dict(os.environ, WSVERIF_REPO=scratch))
            res[p] = {"rc": rc, "rules": sorted(set(re.findall(r"rule=(R-C\d+-\d+)", o))), "keys": re.findall(r"key=(\S+)", o)[:4],
                      "errors": re.findall(r"ANALYSIS-ERROR.*", o)[:2], "msg": [l[:500] for l in o.splitlines() if l.startswith("  /")][:2]}
    finally:
        shutil.rmtree(scratch, ignore_errors=True)
    meta = json.load(open(f"{dst}/meta.json"))
    meta["evaluation"] = {"suite_with_patch": m.group(0) if m else o[-200:], "demo_rc_with_patch": rc1, "demo_rc_clean": rc2, "confirmed": confirmed,
                          "checks_run": {p: {"exit": r["rc"], "rules": r["rules"], "keys": r["keys"]} for p, r in res.items() if r["rc"] != 0 or p == pid},
                          "detected": any(r["rc"] == 1 for r in res.values()),
                          "commands": [f"cd {wt} && git apply SEED/{var}/patch.diff && pytest (38 passed) && python SEED/{var}/demo.py (FAIL) && git checkout -- websocket && python SEED/{var}/demo.py (PASS)",
                                       f"git -C /repo apply /verif/seeded/{pid}-{var}/patch.diff && python3-vt -m wsverif check {pid} && git -C /repo checkout -- ."]}
    json.dump(meta, open(f"{dst}/meta.json", "w"), indent=1)
    print(json.dumps({"id": f"{pid}-{var}", "confirmed": confirmed, "suite": meta["evaluation"]["suite_with_patch"], "demo": [rc1, rc2], "checks": res})[:1800])
    return 0

if __name__ == "__main__":
    sys.exit(main())
