#!/usr/bin/env python3
"""Confirm a sub-agent's seeded change and run the checks against it.
usage: seed_eval.py C05 a [--all]   (worktree /tmp/wt/C05, variant a)
Steps: (1) in the scratch worktree: apply patch -> suite must still give 38 passed -> demo must FAIL; revert -> demo must PASS.
       (2) copy patch.diff/demo.py/meta.json to /verif/seeded/<id>-<v>/.
       (3) apply the patch to /repo, run the property's quick check (or all), record verdict, undo with git checkout."""
import json, os, re, shutil, subprocess, sys

def sh(cmd, cwd=None, env=None, timeout=900):
    p = subprocess.run(cmd, shell=True, cwd=cwd, env=env, capture_output=True, text=True, timeout=timeout)
    return p.returncode, p.stdout + p.stderr

def main():
    pid, var = sys.argv[1], sys.argv[2]
    run_all = "--all" in sys.argv
    wt = f"/tmp/wt/{pid}"
    if not os.path.isdir(f"{wt}/SEED/{var}") and os.path.isdir(f"/tmp/wt/U_{pid}/SEED/{var}"):
        wt = f"/tmp/wt/U_{pid}"  # round-4 worktrees
    elif not os.path.isdir(f"{wt}/SEED/{var}") and os.path.isdir(f"/tmp/wt/T_{pid}/SEED/{var}"):
        wt = f"/tmp/wt/T_{pid}"  # round-3 worktrees
    sd = f"{wt}/SEED/{var}"
    out = {"property": pid, "variant": var}
    env = dict(os.environ, PYTHONPATH=wt)
    sh("git checkout -- websocket", cwd=wt)
    rc, o = sh(f"git apply {sd}/patch.diff", cwd=wt)
    if rc:
        print("patch does not apply", o); return 2
    rc, o = sh("/venv/bin/python -m pytest -q -p no:cacheprovider --timeout=900 --continue-on-collection-errors", cwd=wt, env=env)
    m = re.search(r"(\d+) passed", o)
    out["suite_with_patch"] = m.group(0) if m else o[-200:]
    rc_demo_patched, o1 = sh(f"/venv/bin/python SEED/{var}/demo.py", cwd=wt, env=env)
    sh("git checkout -- websocket", cwd=wt)
    rc_demo_clean, o2 = sh(f"/venv/bin/python SEED/{var}/demo.py", cwd=wt, env=env)
    out["demo_with_patch_rc"] = rc_demo_patched
    out["demo_clean_rc"] = rc_demo_clean
    out["confirmed"] = bool(m and m.group(1) == "38" and rc_demo_patched != 0 and rc_demo_clean == 0)
    dst = f"/verif/seeded/{pid}-{var}"
    os.makedirs(dst, exist_ok=True)
    for f in ("patch.diff", "demo.py", "meta.json"):
        shutil.copy(f"{sd}/{f}", f"{dst}/{f}")
    # (3) against /repo
    rc, o = sh("git status --porcelain", cwd="/repo")
    if o.strip():
        print("/repo is dirty, refusing"); return 2
    rc, o = sh(f"git apply {dst}/patch.diff", cwd="/repo")
    if rc:
        # /repo has moved on (later fix: commits): apply with fuzz and keep the rebased diff next to the original
        rc, o = sh(f"patch -p1 -F3 -s --no-backup-if-mismatch -i {dst}/patch.diff", cwd="/repo")
        if rc:
            sh("git checkout -- .", cwd="/repo")
            print("patch does not apply to /repo", o); return 2
        sh(f"git diff -- websocket > {dst}/patch.rebased.diff", cwd="/repo")
        out["rebased"] = True
    try:
        props = [pid] if not run_all else [f"C{i:02d}" for i in range(1, 21)]
        res = {}
        for p in props:
            rc, o = sh(f"python3-vt -m wsverif check {p} --tier quick", cwd="/verif")
            rules = sorted(set(re.findall(r"rule=(R-C\d+-\d+)", o)))
            keys = re.findall(r"key=(\S+)", o)[:4]
            res[p] = {"rc": rc, "rules": rules, "keys": keys, "errors": re.findall(r"ANALYSIS-ERROR.*", o)[:2]}
        out["checks"] = res
    finally:
        sh("git checkout -- .", cwd="/repo")
        # restore evidence written during the mutated run
        sh("git checkout -- evidence", cwd="/verif")
    out["detected"] = any(r["rc"] == 1 for r in res.values())
    meta = json.load(open(f"{dst}/meta.json"))
    meta["evaluation"] = {"suite_with_patch": out["suite_with_patch"], "demo_rc_with_patch": rc_demo_patched, "demo_rc_clean": rc_demo_clean,
                          "confirmed": out["confirmed"], "checks_run": {p: {"exit": r["rc"], "rules": r["rules"], "keys": r["keys"]} for p, r in res.items() if r["rc"] != 0 or p == pid},
                          "detected": out["detected"],
                          "commands": [f"cd {wt} && git apply SEED/{var}/patch.diff && pytest (38 passed) && python SEED/{var}/demo.py (FAIL) && git checkout -- websocket && python SEED/{var}/demo.py (PASS)",
                                       f"git -C /repo apply /verif/seeded/{pid}-{var}/patch.diff && python3-vt -m wsverif check {pid} && git -C /repo checkout -- ."]}
    json.dump(meta, open(f"{dst}/meta.json", "w"), indent=1)
    print(json.dumps({k: v for k, v in out.items()}, indent=None)[:900])
    return 0

if __name__ == "__main__":
    sys.exit(main())
