#!/usr/bin/env python3
"""Regenerates /verif/MANIFEST.json from the table below (kept in one place so it stays valid)."""
import json, os, subprocess
V = os.path.dirname(os.path.dirname(os.path.abspath(__file__)))
props = [json.loads(l) for l in open(os.path.join(V, "properties.jsonl"))]
from claims import CLAIMS, NOT_APPLICABLE, FIX_COMMITS  # noqa

checks = []
for p in props:
    pid = p["id"]
    if pid not in CLAIMS:
        continue
    c = CLAIMS[pid]
    checks.append({
        "property_id": pid,
        "quick_cmd": f"python3-vt -m wsverif check {pid} --tier quick",
        "thorough_cmd": f"python3-vt -m wsverif check {pid} --tier thorough",
        "evidence_file": f"/verif/evidence/{pid}.json",
        "replay_cmd_template": "python3-vt -m wsverif explain {path}",
        "engine": "wsverif",
        "level_claimed": {"category": "other", "text": c["text"], "design_ref": f"DESIGN.md section 5, {pid}"},
        "level_note": c["note"],
        "technique": c["technique"],
    })
na = [{"property_id": p["id"], "reason": NOT_APPLICABLE.get(p["id"], "check not built yet (build in progress); see DESIGN.md section 5")}
      for p in props if p["id"] not in CLAIMS]
m = {
    "version": 1,
    "setup_cmd": "python3-vt -m wsverif selfcheck",
    "hooks": {"guard": "WEBSOCKET_CLIENT_VERIF",
              "enable": "none: the checkers read /repo/websocket/*.py as text (ast); no instrumentation or hook exists in /repo",
              "baseline_off_cmd": "cd /repo && /venv/bin/python -m pytest -ra -q -p no:cacheprovider --timeout=900 --continue-on-collection-errors",
              "source_commits": [], "add_only": True},
    "engines": [{"name": "wsverif", "path": "/verif/wsverif", "serves_properties": sorted(CLAIMS),
                 "kind_free_text": "repository-specific static analyser: ast program index, path-enumerating abstract interpreter (constants, intervals, finite sets, string templates, typestate via effect traces), DFA equivalence on literal tables, taint/may-raise, syntactic who-may-call rules"}],
    "checks": checks,
    "notes": "Static analysis only. Exit 0 holds / 1 VIOLATION with witness / 2 ANALYSIS-ERROR (anchor vanished, inconclusive). Genuine defects repaired in /repo as 'fix:' commits: " + ", ".join(FIX_COMMITS) + ". See DESIGN.md and known_findings.json.",
    "not_applicable": na,
}
json.dump(m, open(os.path.join(V, "MANIFEST.json"), "w"), indent=1)
print("checks:", len(checks), "not_applicable:", len(na))
