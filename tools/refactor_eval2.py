#!/usr/bin/env python3
"""Evaluate a behaviour-preserving rewrite produced by a sub-agent WITHOUT touching /repo: the patched package is copied to a
scratch tree and every check runs against it through WSVERIF_REPO; all 20 must stay silent (exit 0).
usage: refactor_eval2.py <worktree> <module> <variant>"""
import json, os, re, shutil, subprocess, sys, tempfile
from concurrent.futures import ThreadPoolExecutor

def sh(cmd, cwd=None, env=None, timeout=1800):
    p = subprocess.run(cmd, shell=True, cwd=cwd, env=env, capture_output=True, text=True, timeout=timeout)
    return p.returncode, p.stdout + p.stderr

def main():
    wt, mod, var = sys.argv[1], sys.argv[2], sys.argv[3]
    sd = f"{wt}/SEED/{var}"
    env = dict(os.environ, PYTHONPATH=wt)
    sh("git checkout -- websocket", cwd=wt)
    rc, o = sh(f"git apply {sd}/patch.diff", cwd=wt)
    if rc:
        print("patch does not apply in worktree", o[-300:]); return 2
    scratch = tempfile.mkdtemp(prefix=f"rw_{mod}_{var}_", dir="/tmp")
    try:
        shutil.copytree(f"{wt}/websocket", f"{scratch}/websocket", ignore=shutil.ignore_patterns("tests", "__pycache__"))
        rc, o = sh("/venv/bin/python -m pytest -q -p no:cacheprovider --timeout=900 --continue-on-collection-errors", cwd=wt, env=env)
        m = re.search(r"(\d+) passed", o)
        rc_d, od = sh(f"/venv/bin/python SEED/{var}/diff_check.py", cwd=wt, env=env)
        sh("git checkout -- websocket", cwd=wt)
        dst = f"/verif/seeded/refactor-{mod}-{var}"
        os.makedirs(dst, exist_ok=True)
        for f in ("patch.diff", "diff_check.py", "meta.json"):
            if os.path.exists(f"{sd}/{f}"):
                shutil.copy(f"{sd}/{f}", f"{dst}/{f}")
        def one(i):
            p = f"C{i:02d}"
            rc, o = sh(f"python3-vt -m wsverif check {p} --tier quick --no-write", cwd="/verif", env=dict(os.environ, WSVERIF_REPO=scratch))
            return p, rc, o
        res = {}
        with ThreadPoolExecutor(8) as ex:
            for p, rc, o in ex.map(one, range(1, 21)):
                if rc != 0:
                    res[p] = {"exit": rc, "lines": [l[:500] for l in o.splitlines() if l.startswith(("VIOLATION", "ANALYSIS-ERROR", "  /"))][:6]}
    finally:
        shutil.rmtree(scratch, ignore_errors=True)
    meta = json.load(open(f"{dst}/meta.json")) if os.path.exists(f"{dst}/meta.json") else {}
    rc_h, head = sh("git log --format=%h -1", cwd="/repo")
    meta["written_against"] = head.strip()
    meta["evaluation"] = {"suite_with_patch": m.group(0) if m else o[-100:], "diff_check_rc": rc_d, "alarms": res, "silent": not res}
    json.dump(meta, open(f"{dst}/meta.json", "w"), indent=1)
    print(mod, var, "suite", m.group(0) if m else "?", "diff_check", rc_d, "ALARMS" if res else "silent", json.dumps(res)[:2500])
    return 0

if __name__ == "__main__":
    sys.exit(main())
