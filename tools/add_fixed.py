#!/usr/bin/env python3
"""usage: add_fixed.py <property> <commit> <text>  -- append a 'fixed:' line to known_findings.json (never done at check run time)"""
import json, sys
p = '/verif/known_findings.json'
d = json.load(open(p))
line = f"fixed: property={sys.argv[1]} {sys.argv[2]} {sys.argv[3]}"
if line not in d['fixed']:
    d['fixed'].append(line)
json.dump(d, open(p, 'w'), indent=1)
print(line[:160])
