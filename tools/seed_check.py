#!/usr/bin/env python3
"""Run checks against kept seeded changes WITHOUT touching /repo: each patch is applied to a scratch copy of the package,
analysed through WSVERIF_REPO. usage: seed_check.py <seed-id>... [--props C01,C02|all] [-v]"""
import os, re, shutil, subprocess, sys, tempfile
from concurrent.futures import ThreadPoolExecutor

def one(job):
    sid, props, verbose = job
    scratch = tempfile.mkdtemp(prefix=f"sc_{sid}_", dir="/tmp")
    try:
        shutil.copytree("/repo/websocket", f"{scratch}/websocket", ignore=shutil.ignore_patterns("__pycache__"))
        subprocess.run(["git", "init", "-q"], cwd=scratch)
        pf = f"/verif/seeded/{sid}/patch.rebased.diff"
        if not os.path.exists(pf):
            pf = f"/verif/seeded/{sid}/patch.diff"
        r = subprocess.run(["git", "apply", pf], cwd=scratch, capture_output=True, text=True)
        if r.returncode:
            return sid, {"apply": r.stderr[-200:]}
        out = {}
        for p in props:
            r = subprocess.run(f"python3-vt -m wsverif check {p} --tier quick --no-write", shell=True, cwd="/verif", capture_output=True, text=True,
                               env=dict(os.environ, WSVERIF_REPO=scratch))
            o = r.stdout + r.stderr
            lines = [l[:(2000 if verbose else 400)] for l in o.splitlines() if l.startswith(("ANALYSIS-ERROR", "  /"))]
            out[p] = (r.returncode, sorted(set(re.findall(r"rule=(R-C\d+-\d+)", o))), lines[: (8 if verbose else 2)])
        return sid, out
    finally:
        shutil.rmtree(scratch, ignore_errors=True)

def main():
    args = [a for a in sys.argv[1:] if not a.startswith("-")]
    verbose = "-v" in sys.argv
    props = None
    for i, a in enumerate(sys.argv):
        if a == "--props":
            props = sys.argv[i + 1]
            args.remove(props)
    jobs = []
    for sid in args:
        ps = [sid[:3]] if props is None else ([f"C{i:02d}" for i in range(1, 21)] if props == "all" else props.split(","))
        jobs.append((sid, ps, verbose))
    with ThreadPoolExecutor(int(os.environ.get("SC_JOBS", "12"))) as ex:
        for sid, out in ex.map(one, jobs):
            for p, v in out.items():
                print(sid, p, v if not isinstance(v, tuple) else f"rc={v[0]} {v[1]}")
                if isinstance(v, tuple):
                    for l in v[2]:
                        print("    ", l)

if __name__ == "__main__":
    main()
